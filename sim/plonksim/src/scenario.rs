//! Scenario generation shared by the properties (the *workload*).

use std::sync::Arc;

use dusk_plonk::prelude::PlonkVersion;

use crate::framework::RunCtx;
use crate::json::J;
use crate::program::{self, count_constraints, default_enabled, describe, generate, honest_tape, GenCfg, Op, Program, Tape};
use crate::prng::Rng;

#[derive(Clone, Copy, Debug, PartialEq, Eq)]
pub enum SizeClass {
    /// 2^k + d, k = 3..=6
    Tiny,
    /// k = 7..=8
    Small,
    /// k = 9..=10  (quotient-domain FFTs of 2^12 and more)
    Mid,
    /// k = 12      (all FFTs >= 2^12)
    Large,
}

#[derive(Clone, Debug)]
pub struct Scenario {
    pub prog: Arc<Program>,
    pub tape: Tape,
    pub label: Vec<u8>,
    pub constraints: usize,
    /// degree passed to the ceremony (`PublicParameters::setup(degree)`)
    pub degree: usize,
    pub rng_seed: u64,
    pub version: PlonkVersion,
}

pub fn pick_class(rng: &mut Rng, weights: [u64; 4]) -> SizeClass {
    let total: u64 = weights.iter().sum();
    let mut x = rng.below(total);
    for (i, w) in weights.iter().enumerate() {
        if x < *w {
            return [SizeClass::Tiny, SizeClass::Small, SizeClass::Mid, SizeClass::Large][i];
        }
        x -= w;
    }
    SizeClass::Tiny
}

thread_local! {
    static TARGET_OVERRIDE: std::cell::Cell<Option<usize>> = const { std::cell::Cell::new(None) };
    static PI_HEAVY: std::cell::Cell<Option<usize>> = const { std::cell::Cell::new(None) };
}

/// The next generated scenario is a public-input-heavy circuit: `k` `append_public` rows (a share of
/// them zero-valued through `Kind::Bits(0)`) followed by a few ordinary ops (consumed once).
pub fn set_pi_heavy(k: Option<usize>) {
    PI_HEAVY.with(|x| x.set(k));
}

/// Public-input counts around the sizes at which block-wise code would change behaviour.
pub fn pi_heavy_count(rng: &mut Rng) -> usize {
    match rng.below(8) {
        0 => 255 + rng.usize(3),
        1 => 300 + rng.usize(400),
        2 => 1022 + rng.usize(4),
        3 => 1030 + rng.usize(200),
        4 => 1279 + rng.usize(3),
        5 => 1500 + rng.usize(500),
        6 => 63 + rng.usize(3),
        _ => 100 + rng.usize(100),
    }
}

/// Pin the constraint count of the next generated scenario (consumed once).
pub fn set_target_override(t: Option<usize>) {
    TARGET_OVERRIDE.with(|x| x.set(t));
}

pub fn target_for(rng: &mut Rng, class: SizeClass) -> usize {
    let k = match class {
        SizeClass::Tiny => 3 + rng.below(4),
        SizeClass::Small => 7 + rng.below(2),
        SizeClass::Mid => 9 + rng.below(2),
        SizeClass::Large => 12,
    };
    let delta = rng.range(-8, 8);
    let c = (1i64 << k) + delta;
    c.max(4) as usize
}

pub fn gen_label(rng: &mut Rng) -> Vec<u8> {
    match rng.below(9) {
        6 => {
            // long labels that share a long prefix with other runs' labels
            let mut v = b"dusk-network/plonk/circuits/transfer/v".to_vec();
            v.push(b'0' + rng.below(10) as u8);
            if rng.chance(1, 2) {
                let k = 1 + rng.usize(40);
                v.extend(rng.bytes(k));
            }
            v
        }
        7 => {
            // trailing NUL bytes
            let k = 1 + rng.usize(12);
            let mut v = if rng.chance(1, 2) { b"dusk".to_vec() } else { rng.bytes(k) };
            for _ in 0..1 + rng.usize(3) {
                v.push(0);
            }
            v
        }
        8 => {
            let n = 25 + rng.usize(80);
            rng.bytes(n)
        }
        0 => Vec::new(),
        1 => b"dusk".to_vec(),
        2 => b"dusk-network".to_vec(),
        3 => {
            let mut v = b"dusk".to_vec();
            let n = 1 + rng.usize(4);
            v.extend(rng.bytes(n));
            v
        }
        _ => {
            let n = 1 + rng.usize(24);
            rng.bytes(n)
        }
    }
}

pub struct ScenCfg {
    pub class: SizeClass,
    pub heavy: bool,
    pub raw: bool,
    pub exact_target: bool,
    pub max_ops: usize,
}

/// Generate a scenario from the `workload` stream, honouring the `drop`
/// override (ops removed by the minimiser; no re-padding then).
pub fn gen_scenario(ctx: &mut RunCtx, w: &mut Rng, cfg: &ScenCfg) -> Scenario {
    let mut target = target_for(w, cfg.class);
    if let Some(t) = TARGET_OVERRIDE.with(|x| x.take()) {
        target = t;
    }
    let gcfg = GenCfg {
        target: if cfg.exact_target { Some(target) } else { None },
        max_ops: cfg.max_ops,
        heavy: cfg.heavy && (target >= 700 || !cfg.exact_target),
        pi_density: *w.pick(&[0, 1, 4, 8, 16]),
        enabled: default_enabled(w),
        raw: cfg.raw,
        raw_last: cfg.raw && w.chance(1, 4),
    };
    let mut prog_rng = Rng::new(w.u64());
    let mut prog = None;
    for _ in 0..20 {
        if let Some(p) = generate(&mut prog_rng, &gcfg) {
            prog = Some(p);
            break;
        }
    }
    let mut prog = prog.unwrap_or(Program { ops: vec![Op::Filler(target.saturating_sub(4).max(1))] });
    if let Some(k) = PI_HEAVY.with(|x| x.take()) {
        use crate::program::Kind;
        let mut ops = Vec::with_capacity(k + 4);
        let zero_every = *prog_rng.pick(&[0usize, 2, 7, 64]);
        for i in 0..k {
            let zero = zero_every != 0 && i % zero_every == zero_every - 1;
            ops.push(Op::Public(if zero { Kind::Bits(0) } else { Kind::Any }));
        }
        // a few ordinary rows after the block, if they still count
        // (no raw rows: a raw zero row needs the zero row the generator puts after it)
        let tail: Vec<Op> = prog
            .ops
            .iter()
            .filter(|o| !matches!(o, Op::Filler(_) | Op::RawZero { .. } | Op::RawRange { .. } | Op::RawArith { .. } | Op::SymmetricPair { .. }))
            .take(3)
            .cloned()
            .collect();
        let mut cand = Program { ops: ops.clone() };
        cand.ops.extend(tail);
        prog = if count_constraints(&cand).is_some() { cand } else { Program { ops } };
        ctx.st.probe("pi_heavy_scenario");
    }
    ctx.hints.n_ops = prog.ops.len();
    let drop = ctx.spec.list("drop");
    if !drop.is_empty() {
        let mut i = 0;
        prog.ops.retain(|_| {
            let keep = !drop.contains(&i);
            i += 1;
            keep
        });
    }
    if !drop.is_empty() {
        // dropping ops must not turn an honest instance into an unsatisfied one for a reason of its
        // own: a raw zero row keeps the zero row behind it
        let mut i = 0;
        while i < prog.ops.len() {
            if matches!(prog.ops[i], Op::RawZero { .. }) && !matches!(prog.ops.get(i + 1), Some(Op::Filler(_))) {
                prog.ops.insert(i + 1, Op::Filler(1));
            }
            i += 1;
        }
    }
    for op in &prog.ops {
        *ctx.st.ops_used.entry(op.name().to_string()).or_insert(0) += 1;
    }
    let constraints = count_constraints(&prog).unwrap_or(0);
    let mut tape_rng = Rng::new(w.u64());
    let tape = honest_tape(&prog, &mut tape_rng);
    let label = gen_label(w);
    let min_deg = crate::deploy::min_degree_for(constraints);
    let degree = match w.below(3) {
        0 => min_deg,
        1 => min_deg + 1 + w.usize(9),
        _ => min_deg * 2,
    };
    let version = PlonkVersion::V3;
    let sc = Scenario { prog: Arc::new(prog), tape, label, constraints, degree, rng_seed: w.u64(), version };
    ctx.note("program", J::s(describe(&sc.prog)));
    ctx.note("constraints", J::U(constraints as u64));
    ctx.note("label_hex", J::s(crate::prng::hex(&sc.label)));
    ctx.note("srs_degree", J::U(degree as u64));
    ctx.note("tape_len", J::U(sc.tape.0.len() as u64));
    sc
}

pub fn scenario_sig(sc: &Scenario) -> u64 {
    let mut h = crate::prng::digest(describe(&sc.prog).as_bytes());
    h ^= (sc.constraints as u64).wrapping_mul(0x9E37_79B9_7F4A_7C15);
    h ^= crate::prng::digest(&sc.label).rotate_left(13);
    h
}

#[allow(unused)]
pub fn _unused(_: &program::Program) {}

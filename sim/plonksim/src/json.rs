//! Minimal JSON writer (the worker only ever writes JSON; the driver parses).

#[derive(Clone, Debug)]
pub enum J {
    Null,
    Bool(bool),
    I(i64),
    U(u64),
    F(f64),
    S(String),
    A(Vec<J>),
    O(Vec<(String, J)>),
}

impl J {
    pub fn s(x: impl Into<String>) -> J {
        J::S(x.into())
    }
    pub fn obj(items: Vec<(&str, J)>) -> J {
        J::O(items.into_iter().map(|(k, v)| (k.to_string(), v)).collect())
    }
    pub fn push(&mut self, k: &str, v: J) {
        if let J::O(items) = self {
            items.push((k.to_string(), v));
        }
    }
    pub fn render(&self) -> String {
        let mut s = String::new();
        self.write(&mut s);
        s
    }
    fn write(&self, out: &mut String) {
        match self {
            J::Null => out.push_str("null"),
            J::Bool(b) => out.push_str(if *b { "true" } else { "false" }),
            J::I(i) => out.push_str(&i.to_string()),
            J::U(u) => out.push_str(&u.to_string()),
            J::F(f) => {
                if f.is_finite() {
                    out.push_str(&format!("{}", f))
                } else {
                    out.push_str("null")
                }
            }
            J::S(s) => esc(s, out),
            J::A(v) => {
                out.push('[');
                for (i, x) in v.iter().enumerate() {
                    if i > 0 {
                        out.push(',');
                    }
                    x.write(out);
                }
                out.push(']');
            }
            J::O(v) => {
                out.push('{');
                for (i, (k, x)) in v.iter().enumerate() {
                    if i > 0 {
                        out.push(',');
                    }
                    esc(k, out);
                    out.push(':');
                    x.write(out);
                }
                out.push('}');
            }
        }
    }
}

fn esc(s: &str, out: &mut String) {
    out.push('"');
    for c in s.chars() {
        match c {
            '"' => out.push_str("\\\""),
            '\\' => out.push_str("\\\\"),
            '\n' => out.push_str("\\n"),
            '\r' => out.push_str("\\r"),
            '\t' => out.push_str("\\t"),
            c if (c as u32) < 0x20 => out.push_str(&format!("\\u{:04x}", c as u32)),
            c => out.push(c),
        }
    }
    out.push('"');
}

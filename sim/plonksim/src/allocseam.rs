//! Allocator seam (S5): a counting global allocator.  The simulator reads the
//! peak live heap and the largest single request of a case and compares them
//! with a budget.  Allocation *failure* aborts in Rust, so failures are not
//! injected; an over-budget request is recorded and the supervisor turns an
//! abort (capacity overflow, OOM) into a reported violation.

use std::alloc::{GlobalAlloc, Layout, System};
use std::sync::atomic::{AtomicUsize, Ordering};

pub struct Counting;

static CUR: AtomicUsize = AtomicUsize::new(0);
static PEAK: AtomicUsize = AtomicUsize::new(0);
static MAXREQ: AtomicUsize = AtomicUsize::new(0);
static ALLOCS: AtomicUsize = AtomicUsize::new(0);

unsafe impl GlobalAlloc for Counting {
    unsafe fn alloc(&self, layout: Layout) -> *mut u8 {
        let p = unsafe { System.alloc(layout) };
        if !p.is_null() {
            note_alloc(layout.size());
        }
        p
    }
    unsafe fn alloc_zeroed(&self, layout: Layout) -> *mut u8 {
        let p = unsafe { System.alloc_zeroed(layout) };
        if !p.is_null() {
            note_alloc(layout.size());
        }
        p
    }
    unsafe fn dealloc(&self, ptr: *mut u8, layout: Layout) {
        unsafe { System.dealloc(ptr, layout) };
        CUR.fetch_sub(layout.size(), Ordering::Relaxed);
    }
    unsafe fn realloc(&self, ptr: *mut u8, layout: Layout, new_size: usize) -> *mut u8 {
        let p = unsafe { System.realloc(ptr, layout, new_size) };
        if !p.is_null() {
            CUR.fetch_sub(layout.size(), Ordering::Relaxed);
            note_alloc(new_size);
        }
        p
    }
}

#[inline]
fn note_alloc(size: usize) {
    ALLOCS.fetch_add(1, Ordering::Relaxed);
    let cur = CUR.fetch_add(size, Ordering::Relaxed) + size;
    PEAK.fetch_max(cur, Ordering::Relaxed);
    MAXREQ.fetch_max(size, Ordering::Relaxed);
}

#[derive(Clone, Copy, Debug)]
pub struct Mark {
    base: usize,
}

/// Start measuring: the peak is reset to the current live heap.
pub fn begin() -> Mark {
    let cur = CUR.load(Ordering::Relaxed);
    PEAK.store(cur, Ordering::Relaxed);
    MAXREQ.store(0, Ordering::Relaxed);
    Mark { base: cur }
}

/// (peak live heap above the mark, largest single request) since `begin`.
pub fn end(m: Mark) -> (usize, usize) {
    let peak = PEAK.load(Ordering::Relaxed);
    (peak.saturating_sub(m.base), MAXREQ.load(Ordering::Relaxed))
}

//! The simulated disk and its fault catalogue (DESIGN.md section 3.4).  The
//! library performs no I/O itself: keys, proofs, parameters and compressed
//! circuits are byte strings that a deployment stores and reloads.  A disk
//! fault is an edit of the stored bytes between `write` and `read`.

use crate::prng::Rng;
use crate::strict::Layout;

#[derive(Clone, Debug, PartialEq)]
pub enum DiskFault {
    BitFlip(usize),
    MultiBitFlip(Vec<usize>),
    /// short write: only a prefix reached the disk
    Truncate(usize),
    /// garbage after the object
    Extend(Vec<u8>),
    /// torn write: prefix of the new version, rest zeros (same length)
    TornZeros(usize),
    /// torn write: prefix of the new version, rest from the previous version of the file
    TornOld(usize),
    /// lost write: the previous version of the file is what is read
    Lost,
    /// misdirected write: another object's bytes under this name
    Misdirected,
    /// a zeroed 512-byte block
    ZeroBlock(usize),
    /// a length / count field overwritten
    LenField { off: usize, be: bool, value: u64, name: &'static str },
    /// raw commit-key point edits
    RawFlag { off: usize, value: u8 },
    RawAddModulus { off: usize, coord: usize },
    RawInfinityWithCoords { off: usize },
    RawOffCurve { off: usize },
    RawSwapXY { off: usize },
    /// a 32-byte scalar replaced by a non-canonical encoding (value + r or all 0xff)
    ScalarNonCanonical { off: usize, all_ff: bool },
    /// a compressed G1 point replaced (identity / flag games)
    G1Identity { off: usize },
    G1FlagBits { off: usize, bits: u8 },
    /// a compressed G1 slot overwritten with the encoding of a point that is on the curve but
    /// outside the prime-order subgroup
    G1NotInSubgroup { off: usize, bytes: [u8; 48] },
    /// compressed G2 slots of an opening key: identity, flag games, a point outside the subgroup,
    /// the other G2 element of the key
    G2Identity { off: usize },
    G2FlagBits { off: usize, bits: u8 },
    G2NotInSubgroup { off: usize, bytes: Vec<u8> },
    G2CopyOf { off: usize, from: usize },
    /// the two G2 elements of an opening key shifted by opposite components outside the subgroup:
    /// h + T and x_h - T (each is outside the subgroup, their sum is not)
    G2PairShift { off_a: usize, off_b: usize, t: Vec<u8> },
    /// the object written twice back to back
    Duplicate,
    /// every byte replaced by seeded garbage of the same length
    Garbage(u64),
    /// empty file
    Empty,
}

impl DiskFault {
    pub fn kind(&self) -> &'static str {
        match self {
            DiskFault::BitFlip(_) => "disk.bitflip",
            DiskFault::MultiBitFlip(_) => "disk.multibitflip",
            DiskFault::Truncate(_) => "disk.short_write",
            DiskFault::Extend(_) => "disk.extend",
            DiskFault::TornZeros(_) => "disk.torn_write_zeros",
            DiskFault::TornOld(_) => "disk.torn_write_old",
            DiskFault::Lost => "disk.lost_write",
            DiskFault::Misdirected => "disk.misdirected_write",
            DiskFault::ZeroBlock(_) => "disk.zero_block",
            DiskFault::LenField { .. } => "disk.length_field",
            DiskFault::RawFlag { .. } => "disk.raw_point_flag",
            DiskFault::RawAddModulus { .. } => "disk.raw_point_nonreduced_limbs",
            DiskFault::RawInfinityWithCoords { .. } => "disk.raw_point_infinity_with_coords",
            DiskFault::RawOffCurve { .. } => "disk.raw_point_off_curve",
            DiskFault::RawSwapXY { .. } => "disk.raw_point_swap_xy",
            DiskFault::ScalarNonCanonical { .. } => "disk.scalar_noncanonical",
            DiskFault::G1Identity { .. } => "disk.g1_identity",
            DiskFault::G1FlagBits { .. } => "disk.g1_flag_bits",
            DiskFault::G1NotInSubgroup { .. } => "disk.g1_on_curve_outside_subgroup",
            DiskFault::G2Identity { .. } => "disk.g2_identity",
            DiskFault::G2FlagBits { .. } => "disk.g2_flag_bits",
            DiskFault::G2NotInSubgroup { .. } => "disk.g2_on_curve_outside_subgroup",
            DiskFault::G2CopyOf { .. } => "disk.g2_copy_of_other_element",
            DiskFault::G2PairShift { .. } => "disk.g2_pair_shifted_by_opposite_torsion",
            DiskFault::Duplicate => "disk.duplicate",
            DiskFault::Garbage(_) => "disk.garbage",
            DiskFault::Empty => "disk.empty",
        }
    }
}

fn add_modulus_le(limbs: &mut [u8]) {
    // limbs: 48 bytes, six little-endian u64; add the base-field modulus (with carry, wrapping at 2^384)
    let mut carry = 0u128;
    for i in 0..6 {
        let mut x = [0u8; 8];
        x.copy_from_slice(&limbs[8 * i..8 * i + 8]);
        let v = u64::from_le_bytes(x) as u128 + crate::strict::FP_MODULUS[i] as u128 + carry;
        limbs[8 * i..8 * i + 8].copy_from_slice(&(v as u64).to_le_bytes());
        carry = v >> 64;
    }
}

/// BLS12-381 scalar field modulus r, little-endian bytes.
const R_LE: [u8; 32] = [
    0x01, 0x00, 0x00, 0x00, 0xff, 0xff, 0xff, 0xff, 0xfe, 0x5b, 0xfe, 0xff, 0x02, 0xa4, 0xbd, 0x53, 0x05, 0xd8, 0xa1, 0x09, 0x08, 0xd8, 0x39,
    0x33, 0x48, 0x7d, 0x9d, 0x29, 0x53, 0xa7, 0xed, 0x73,
];

fn add_r_le(s: &mut [u8]) {
    let mut carry = 0u16;
    for i in 0..32 {
        let v = s[i] as u16 + R_LE[i] as u16 + carry;
        s[i] = v as u8;
        carry = v >> 8;
    }
}

/// Read back `stored` under a fault.  `old`: previous version of the file;
/// `other`: some other object's bytes.
pub fn apply(stored: &[u8], fault: &DiskFault, old: Option<&[u8]>, other: Option<&[u8]>) -> Vec<u8> {
    let mut b = stored.to_vec();
    let n = b.len();
    match fault {
        DiskFault::BitFlip(bit) => {
            if n > 0 {
                let bit = bit % (n * 8);
                b[bit / 8] ^= 1 << (bit % 8);
            }
        }
        DiskFault::MultiBitFlip(bits) => {
            for bit in bits {
                if n > 0 {
                    let bit = bit % (n * 8);
                    b[bit / 8] ^= 1 << (bit % 8);
                }
            }
        }
        DiskFault::Truncate(len) => b.truncate(*len % (n + 1)),
        DiskFault::Extend(extra) => b.extend_from_slice(extra),
        DiskFault::TornZeros(at) => {
            let at = at % (n + 1);
            for x in b[at..].iter_mut() {
                *x = 0;
            }
        }
        DiskFault::TornOld(at) => {
            let at = at % (n + 1);
            if let Some(o) = old {
                let mut v = b[..at].to_vec();
                if o.len() > at {
                    v.extend_from_slice(&o[at..]);
                }
                b = v;
            } else {
                b.truncate(at);
            }
        }
        DiskFault::Lost => {
            b = old.map(|o| o.to_vec()).unwrap_or_default();
        }
        DiskFault::Misdirected => {
            b = other.map(|o| o.to_vec()).unwrap_or_default();
        }
        DiskFault::ZeroBlock(at) => {
            if n > 0 {
                let at = (at % n) & !511;
                let end = (at + 512).min(n);
                for x in b[at..end].iter_mut() {
                    *x = 0;
                }
            }
        }
        DiskFault::LenField { off, be, value, .. } => {
            if off + 8 <= n {
                let v = if *be { value.to_be_bytes() } else { value.to_le_bytes() };
                b[*off..off + 8].copy_from_slice(&v);
            }
        }
        DiskFault::RawFlag { off, value } => {
            if off + 97 <= n {
                b[off + 96] = *value;
            }
        }
        DiskFault::RawAddModulus { off, coord } => {
            if off + 97 <= n {
                let o = off + 48 * (coord % 2);
                add_modulus_le(&mut b[o..o + 48]);
            }
        }
        DiskFault::RawInfinityWithCoords { off } => {
            if off + 97 <= n {
                b[off + 96] = 1;
            }
        }
        DiskFault::RawOffCurve { off } => {
            if off + 97 <= n {
                b[*off] ^= 1;
            }
        }
        DiskFault::RawSwapXY { off } => {
            if off + 97 <= n {
                let x = b[*off..off + 48].to_vec();
                let y = b[off + 48..off + 96].to_vec();
                b[*off..off + 48].copy_from_slice(&y);
                b[off + 48..off + 96].copy_from_slice(&x);
            }
        }
        DiskFault::ScalarNonCanonical { off, all_ff } => {
            if off + 32 <= n {
                if *all_ff {
                    for x in b[*off..off + 32].iter_mut() {
                        *x = 0xff;
                    }
                } else {
                    add_r_le(&mut b[*off..off + 32]);
                }
            }
        }
        DiskFault::G1Identity { off } => {
            if off + 48 <= n {
                for x in b[*off..off + 48].iter_mut() {
                    *x = 0;
                }
                b[*off] = 0xc0;
            }
        }
        DiskFault::G1FlagBits { off, bits } => {
            if off + 48 <= n {
                b[*off] ^= bits << 5;
            }
        }
        DiskFault::G1NotInSubgroup { off, bytes } => {
            if off + 48 <= n {
                b[*off..off + 48].copy_from_slice(bytes);
            }
        }
        DiskFault::G2Identity { off } => {
            if off + 96 <= n {
                for x in b[*off..off + 96].iter_mut() {
                    *x = 0;
                }
                b[*off] = 0xc0;
            }
        }
        DiskFault::G2FlagBits { off, bits } => {
            if off + 96 <= n {
                b[*off] ^= bits << 5;
            }
        }
        DiskFault::G2NotInSubgroup { off, bytes } => {
            if off + 96 <= n && bytes.len() == 96 {
                b[*off..off + 96].copy_from_slice(bytes);
            }
        }
        DiskFault::G2PairShift { off_a, off_b, t } => {
            use dusk_bls12_381::{G2Affine, G2Projective};
            if off_a + 96 <= n && off_b + 96 <= n && t.len() == 96 {
                let rd = |s: &[u8]| -> Option<G2Affine> {
                    let mut x = [0u8; 96];
                    x.copy_from_slice(s);
                    Option::<G2Affine>::from(G2Affine::from_compressed_unchecked(&x))
                };
                if let (Some(a), Some(bb), Some(tp)) = (rd(&b[*off_a..off_a + 96]), rd(&b[*off_b..off_b + 96]), rd(t)) {
                    let a2 = G2Affine::from(G2Projective::from(a) + G2Projective::from(tp));
                    let b2 = G2Affine::from(G2Projective::from(bb) - G2Projective::from(tp));
                    b[*off_a..off_a + 96].copy_from_slice(&a2.to_compressed());
                    b[*off_b..off_b + 96].copy_from_slice(&b2.to_compressed());
                }
            }
        }
        DiskFault::G2CopyOf { off, from } => {
            if off + 96 <= n && from + 96 <= n {
                let src = b[*from..from + 96].to_vec();
                b[*off..off + 96].copy_from_slice(&src);
            }
        }
        DiskFault::Duplicate => {
            let c = b.clone();
            b.extend_from_slice(&c);
        }
        DiskFault::Garbage(seed) => {
            let mut r = Rng::new(*seed);
            r.fill(&mut b);
        }
        DiskFault::Empty => b.clear(),
    }
    b
}

/// Compressed encoding of a point on the curve that is not in the prime-order subgroup.
pub fn g1_outside_subgroup(rng: &mut Rng) -> Option<[u8; 48]> {
    use dusk_bls12_381::G1Affine;
    for _ in 0..64 {
        let mut b = [0u8; 48];
        rng.fill(&mut b);
        b[0] = (b[0] & 0x1f) | 0x80 | ((rng.below(2) as u8) << 5);
        if let Some(p) = Option::<G1Affine>::from(G1Affine::from_compressed_unchecked(&b)) {
            if !bool::from(p.is_torsion_free()) && bool::from(p.is_on_curve()) {
                return Some(b);
            }
        }
    }
    None
}

pub fn g2_outside_subgroup(rng: &mut Rng) -> Option<Vec<u8>> {
    use dusk_bls12_381::G2Affine;
    for _ in 0..64 {
        let mut b = [0u8; 96];
        rng.fill(&mut b);
        b[0] = (b[0] & 0x1f) | 0x80 | ((rng.below(2) as u8) << 5);
        // both Fp components must be reduced: clear the top bits of the second one as well
        b[48] &= 0x1f;
        if let Some(p) = Option::<G2Affine>::from(G2Affine::from_compressed_unchecked(&b)) {
            if !bool::from(p.is_torsion_free()) && bool::from(p.is_on_curve()) {
                return Some(b.to_vec());
            }
        }
    }
    None
}

pub fn special_values(v: u64, rng: &mut Rng) -> u64 {
    match rng.below(14) {
        0 => 0,
        1 => 1,
        2 => v.wrapping_add(1),
        3 => v.wrapping_sub(1),
        4 => 1 << 31,
        5 => 1 << 32,
        6 => 1 << 63,
        7 => u64::MAX,
        8 => v.wrapping_mul(2),
        9 => v / 2,
        10 => v.wrapping_add(8),
        11 => (1 << 32) - 1,
        12 => v ^ (1 << rng.below(64)),
        _ => rng.u64(),
    }
}

/// A seeded fault aimed at an object with a known layout.
pub fn random_fault(rng: &mut Rng, len: usize, lay: Option<&Layout>) -> DiskFault {
    let structural = lay.is_some() && rng.chance(1, 2);
    if structural {
        let lay = lay.unwrap();
        let pick = rng.below(8);
        if pick < 3 && !lay.len_fields.is_empty() {
            let f = &lay.len_fields[rng.usize(lay.len_fields.len())];
            return DiskFault::LenField { off: f.off, be: f.be, value: special_values(f.value, rng), name: f.name };
        }
        if pick < 6 && !lay.raw_points.is_empty() {
            let off = lay.raw_points[rng.usize(lay.raw_points.len())];
            return match rng.below(6) {
                0 => DiskFault::RawFlag { off, value: 2 + rng.below(254) as u8 },
                1 => DiskFault::RawAddModulus { off, coord: rng.usize(2) },
                2 => DiskFault::RawInfinityWithCoords { off },
                3 => DiskFault::RawOffCurve { off },
                4 => DiskFault::RawSwapXY { off },
                _ => DiskFault::RawFlag { off, value: 1 << (1 + rng.below(7)) },
            };
        }
        if pick < 7 && !lay.g1_points.is_empty() {
            if !lay.g2_points.is_empty() && rng.chance(1, 3) {
                let off = lay.g2_points[rng.usize(lay.g2_points.len())];
                return match rng.below(5) {
                    4 if lay.g2_points.len() >= 2 => match g2_outside_subgroup(rng) {
                        Some(t) => DiskFault::G2PairShift { off_a: lay.g2_points[0], off_b: lay.g2_points[1], t },
                        None => DiskFault::G2Identity { off },
                    },
                    0 => DiskFault::G2Identity { off },
                    1 => DiskFault::G2FlagBits { off, bits: 1 + rng.below(7) as u8 },
                    2 => DiskFault::G2CopyOf { off, from: lay.g2_points[rng.usize(lay.g2_points.len())] },
                    _ => match g2_outside_subgroup(rng) {
                        Some(bytes) => DiskFault::G2NotInSubgroup { off, bytes },
                        None => DiskFault::G2Identity { off },
                    },
                };
            }
            let off = lay.g1_points[rng.usize(lay.g1_points.len())];
            return match rng.below(3) {
                0 => DiskFault::G1Identity { off },
                1 => DiskFault::G1FlagBits { off, bits: 1 + rng.below(7) as u8 },
                _ => match g1_outside_subgroup(rng) {
                    Some(bytes) => DiskFault::G1NotInSubgroup { off, bytes },
                    None => DiskFault::G1Identity { off },
                },
            };
        }
        if !lay.scalar_regions.is_empty() {
            let (off, cnt) = lay.scalar_regions[rng.usize(lay.scalar_regions.len())];
            let i = rng.usize(cnt.max(1));
            return DiskFault::ScalarNonCanonical { off: off + 32 * i, all_ff: rng.chance(1, 2) };
        }
    }
    match rng.below(16) {
        0..=4 => DiskFault::BitFlip(rng.usize(len.max(1) * 8)),
        5 => DiskFault::MultiBitFlip((0..2 + rng.usize(4)).map(|_| rng.usize(len.max(1) * 8)).collect()),
        6 | 7 => DiskFault::Truncate(rng.usize(len + 1)),
        8 => {
            let n = 1 + rng.usize(64);
            DiskFault::Extend(rng.bytes(n))
        }
        9 => DiskFault::TornZeros(rng.usize(len + 1)),
        10 => DiskFault::TornOld(rng.usize(len + 1)),
        11 => DiskFault::Lost,
        12 => DiskFault::Misdirected,
        13 => DiskFault::ZeroBlock(rng.usize(len.max(1))),
        14 => DiskFault::Duplicate,
        _ => {
            if rng.chance(1, 2) {
                DiskFault::Garbage(rng.u64())
            } else {
                DiskFault::Empty
            }
        }
    }
}

//! plonksim — deterministic simulation with fault injection for dusk-plonk.
//! See /verif/DESIGN.md.

mod allocseam;
mod c01;
#[cfg(feature = "engine-std")]
mod c02;
mod c03;
mod c04;
#[cfg(feature = "engine-std")]
mod c05;
mod c06;
#[cfg(feature = "engine-std")]
mod c07;
mod c15;
mod c16;
mod c17;
mod c18;
mod c19;
mod channel;
mod compressed;
mod deploy;
mod disk;
mod framework;
mod history;
mod json;
mod mirror;
#[cfg(feature = "engine-shuttle")]
mod mt;
mod prng;
mod program;
mod rm_rows;
mod rm_verify;
mod scenario;
mod seams;
mod strict;
#[cfg(feature = "engine-std")]
mod wfault;

use std::collections::BTreeMap;
use std::io::Write;
use std::time::Instant;

use framework::{execute, minimise, stats_json, PropFn, Spec, Stats};
use json::J;

#[global_allocator]
static GLOBAL: allocseam::Counting = allocseam::Counting;

fn prop_fn(id: &str) -> Option<(&'static str, PropFn)> {
    Some(match id {
        "C01" => ("C01", c01::run as PropFn),
        #[cfg(feature = "engine-std")]
        "C02" => ("C02", c02::run as PropFn),
        "C03" => ("C03", c03::run as PropFn),
        "C04" => ("C04", c04::run as PropFn),
        #[cfg(feature = "engine-std")]
        "C05" => ("C05", c05::run as PropFn),
        "C06" => ("C06", c06::run as PropFn),
        #[cfg(feature = "engine-std")]
        "C07" => ("C07", c07::run as PropFn),
        "C15" => ("C15", c15::run as PropFn),
        "C16" => ("C16", c16::run as PropFn),
        "C17" => ("C17", c17::run as PropFn),
        "C18" => ("C18", c18::run as PropFn),
        "C19" => ("C19", c19::run as PropFn),
        _ => return None,
    })
}

struct Args {
    pos: Vec<String>,
    kv: BTreeMap<String, String>,
}

fn parse_args() -> Args {
    let mut pos = Vec::new();
    let mut kv = BTreeMap::new();
    let mut it = std::env::args().skip(1);
    while let Some(a) = it.next() {
        if let Some(k) = a.strip_prefix("--") {
            let v = it.next().unwrap_or_default();
            kv.insert(k.to_string(), v);
        } else {
            pos.push(a);
        }
    }
    Args { pos, kv }
}

fn main() {
    seams::install_hash_seam();
    seams::install_panic_hook();
    if !rm_verify::selfcheck_logic_identity() {
        eprintln!("HARNESS-ERROR reference model self-check failed (logic identity truth table)");
        std::process::exit(2);
    }
    let args = parse_args();
    let cmd = args.pos.first().map(|s| s.as_str()).unwrap_or("");
    match cmd {
        "run" => cmd_run(&args),
        "replay" => cmd_replay(&args),
        #[cfg(feature = "engine-shuttle")]
        "mt" => {
            let seed = get_u64(&args, "seed", 20260923);
            let thorough = args.kv.get("tier").map(|t| t == "thorough").unwrap_or(false);
            let shard = args.kv.get("shard").cloned().unwrap_or_else(|| "0/1".into());
            let (si, sn) = shard.split_once('/').map(|(i, n)| (i.parse::<u64>().unwrap(), n.parse::<u64>().unwrap())).unwrap_or((0, 1));
            let budget_s = args.kv.get("budget-s").and_then(|v| v.parse::<f64>().ok()).unwrap_or(1e9);
            mt::cmd_mt(
                seed,
                thorough,
                (si, sn),
                get_u64(&args, "runs", 8),
                args.kv.get("out").map(|s| s.as_str()).unwrap_or("/dev/stdout"),
                args.kv.get("replay-dir").map(|s| s.as_str()).unwrap_or("."),
                budget_s,
            )
        }
        #[cfg(feature = "engine-shuttle")]
        "mt-replay" => mt::cmd_mt_replay(
            get_u64(&args, "seed", 20260923),
            get_u64(&args, "run", 0),
            args.kv.get("tier").map(|t| t == "thorough").unwrap_or(false),
            get_u64(&args, "iter", 0),
        ),
        #[cfg(feature = "engine-shuttle")]
        "mt-selfcheck" => mt::cmd_mt_selfcheck(get_u64(&args, "seed", 20260923)),
        _ => {
            eprintln!("usage: plonksim run|replay <PROP> --seed S --tier quick|thorough ...");
            std::process::exit(2);
        }
    }
}

fn get_u64(a: &Args, k: &str, default: u64) -> u64 {
    a.kv.get(k).and_then(|v| v.parse().ok()).unwrap_or(default)
}

fn cmd_run(a: &Args) {
    let pid = a.pos.get(1).cloned().unwrap_or_default();
    let (prop, f) = match prop_fn(&pid) {
        Some(x) => x,
        None => {
            eprintln!("unknown property {}", pid);
            std::process::exit(2);
        }
    };
    let seed = get_u64(a, "seed", 20260923);
    let thorough = a.kv.get("tier").map(|t| t == "thorough").unwrap_or(false);
    let shard = a.kv.get("shard").cloned().unwrap_or_else(|| "0/1".into());
    let (si, sn) = shard.split_once('/').map(|(i, n)| (i.parse::<u64>().unwrap(), n.parse::<u64>().unwrap())).unwrap_or((0, 1));
    let runs = get_u64(a, "runs", 16);
    let first_run = get_u64(a, "first-run", 0);
    let budget_s = a.kv.get("budget-s").and_then(|v| v.parse::<f64>().ok()).unwrap_or(1e9);
    let out = a.kv.get("out").cloned().unwrap_or_else(|| "/dev/stdout".into());
    let replay_dir = a.kv.get("replay-dir").cloned().unwrap_or_else(|| ".".into());
    let progress = a.kv.get("progress").cloned();
    if let Some(p) = &progress {
        framework::set_progress_file(p.clone());
    }
    let spec0 = Spec::parse(a.kv.get("spec").map(|s| s.as_str()).unwrap_or(""));

    let t0 = Instant::now();
    let mut st = Stats::default();
    let mut violations: Vec<J> = Vec::new();
    let mut skipped = 0u64;
    // runs executed earlier in this process: the process history of a later run
    let mut executed: Vec<u64> = Vec::new();
    let mut r = first_run + si;
    while r < first_run + runs {
        if t0.elapsed().as_secs_f64() > budget_s {
            skipped += 1;
            r += sn;
            continue;
        }
        if let Some(p) = &progress {
            // pre-case line for the supervisor: which run is in flight
            if let Ok(mut fh) = std::fs::OpenOptions::new().create(true).append(true).open(p) {
                let _ = writeln!(fh, "START {} {}", prop, r);
            }
        }
        st.runs += 1;
        let o = execute(prop, f, seed, r, thorough, &spec0, &mut st);
        if o.violation.is_some() {
            let v0 = o.violation.clone().unwrap();
            let (spec, best, attempts) = minimise(prop, f, seed, r, thorough, &o, 60.0);
            // confirm determinism of the minimised replay in-process
            let mut scratch = Stats::default();
            let again = execute(prop, f, seed, r, thorough, &spec, &mut scratch);
            let reproduced = again.violation.as_ref().map(|v| v.invariant == v0.invariant).unwrap_or(false);
            let v = best.violation.clone().unwrap();
            let path = format!("{}/{}-{}-{}.json", replay_dir, prop, seed, r);
            let file = J::obj(vec![
                ("property", J::s(prop)),
                ("invariant", J::s(v.invariant.clone())),
                ("engine", J::s(engine_name())),
                ("seed", J::U(seed)),
                ("run", J::U(r)),
                ("tier", J::s(if thorough { "thorough" } else { "quick" })),
                ("spec", J::s(spec.render())),
                ("detail", J::s(v.detail.clone())),
                ("first_detail", J::s(v0.detail.clone())),
                ("minimisation_attempts", J::U(attempts)),
                ("reproduced_in_process", J::Bool(reproduced)),
                ("first_spec", J::s(spec0.render())),
                ("runs_executed_before_in_this_process", J::A(executed.iter().map(|x| J::U(*x)).collect())),
                ("scenario", J::O(best.explicit.clone())),
            ]);
            let _ = std::fs::create_dir_all(&replay_dir);
            let _ = std::fs::write(&path, file.render());
            violations.push(J::obj(vec![
                ("run", J::U(r)),
                ("invariant", J::s(v.invariant)),
                ("detail", J::s(v.detail)),
                ("replay", J::s(path)),
                ("reproduced_in_process", J::Bool(reproduced)),
            ]));
            // one minimised, replayable violation per worker is enough to fail the check
            break;
        }
        executed.push(r);
        r += sn;
    }
    let mut j = stats_json(&st, t0.elapsed().as_secs_f64());
    j.push("property", J::s(prop));
    j.push("seed", J::U(seed));
    j.push("shard", J::s(shard));
    j.push("skipped_for_budget", J::U(skipped));
    j.push("violations", J::A(violations));
    j.push("engine", J::s(engine_name()));
    std::fs::write(&out, j.render()).expect("write shard output");
}

fn engine_name() -> &'static str {
    if cfg!(feature = "engine-real") {
        "E4-plonksim(std, real rayon)"
    } else if cfg!(feature = "engine-std") {
        "E1-plonksim(std, sim-rayon)"
    } else {
        "E3-plonksim(alloc-only)"
    }
}

fn cmd_replay(a: &Args) {
    let pid = a.pos.get(1).cloned().unwrap_or_default();
    let (prop, f) = match prop_fn(&pid) {
        Some(x) => x,
        None => {
            eprintln!("unknown property {}", pid);
            std::process::exit(2);
        }
    };
    let seed = get_u64(a, "seed", 20260923);
    let run = get_u64(a, "run", 0);
    let thorough = a.kv.get("tier").map(|t| t == "thorough").unwrap_or(false);
    let spec = Spec::parse(a.kv.get("spec").map(|s| s.as_str()).unwrap_or(""));
    let expect = a.kv.get("expect").cloned();
    let mut st = Stats::default();
    // process history: runs that were executed in the same process before the recorded one
    if let Some(list) = a.kv.get("prefix-runs") {
        let empty = Spec::default();
        for r in list.split(',').filter_map(|x| x.trim().parse::<u64>().ok()) {
            let mut scratch = Stats::default();
            let _ = execute(prop, f, seed, r, thorough, &empty, &mut scratch);
        }
    }
    let o = execute(prop, f, seed, run, thorough, &spec, &mut st);
    for (k, (n, d, _)) in &st.findings {
        println!("REPLAY finding key={} count={} detail={}", k, n, d);
    }
    if let Some(e) = &expect {
        if let Some(key) = e.strip_prefix("finding:") {
            std::process::exit(if st.findings.contains_key(key) { 1 } else { 0 });
        }
    }
    match o.violation {
        Some(v) => {
            println!("REPLAY violation invariant={} detail={}", v.invariant, v.detail);
            match expect {
                Some(e) if e != v.invariant => std::process::exit(3),
                _ => std::process::exit(1),
            }
        }
        None => {
            println!("REPLAY clean");
            std::process::exit(0);
        }
    }
}

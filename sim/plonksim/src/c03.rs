//! C03 — the verifier decides exactly the protocol's equation and transcript.
//! Refinement: every verify decision of a broad corpus (honest proofs under
//! every version, channel-corrupted proofs, field substitutions, splices,
//! cross-circuit deliveries, altered public inputs) is mirrored on the
//! independent reference verifier; I-refine demands equal verdicts.  Because
//! the reference is written from the protocol and reads only serialized
//! bytes, a change that weakens prover and verifier consistently shows up as
//! a disagreement on *honest* proofs.

use std::sync::Arc;

use dusk_plonk::prelude::*;

use crate::c04::near_miss;
use crate::channel::{apply, random_pi_fault, random_proof_fault, ChanFault, Msg, PROOF_SIZE};
use crate::deploy::{self, proof_bytes, Route};
use crate::framework::{RunCtx, Violation};
use crate::json::J;
use crate::mirror::{deliver, VerifierNode};
use crate::prng::digest;
use crate::scenario::{gen_scenario, pick_class, scenario_sig, ScenCfg};
use crate::seams::ScriptedRng;

pub fn run(ctx: &mut RunCtx) -> Result<(), Violation> {
    let mut w = ctx.stream("workload");
    let mut s = ctx.stream("sched");
    let mut f = ctx.stream("faults");
    let class = if ctx.thorough { pick_class(&mut w, [10, 4, 1, 0]) } else { pick_class(&mut w, [12, 2, 0, 0]) };
    let heavy = w.chance(1, 4);
    let exact = w.chance(1, 2);
    let sc = gen_scenario(ctx, &mut w, &ScenCfg { class, heavy, raw: true, exact_target: exact, max_ops: 24 });
    let sig = scenario_sig(&sc);
    let pp = deploy::pp_with_degree(sc.degree);
    let env = ctx.env(&mut s);
    let (prover, verifier) = match deploy::compile(&pp, &sc.label, &sc.prog, Route::WithCircuit, &env) {
        Ok(k) => k,
        Err(_) => return Ok(()),
    };
    let node = VerifierNode::new(verifier)?;
    let mut honest: Vec<Msg> = Vec::new();
    for (k, v) in [PlonkVersion::V3, PlonkVersion::V3, PlonkVersion::V2].iter().enumerate() {
        let mut rng = ScriptedRng::new(sc.rng_seed.wrapping_add(k as u64 * 7919));
        let env_p = ctx.env(&mut s);
        ctx.st.steps += 1;
        match deploy::prove(&prover, &sc.prog, &sc.tape, &mut rng, *v, &env_p) {
            Ok((proof, pi)) => honest.push(Msg { proof: proof_bytes(&proof), pi, version: *v }),
            Err(_) => {
                ctx.st.probe("honest_prove_failed(C01 territory)");
                return Ok(());
            }
        }
    }
    // 1. honest proofs under every version: the reference must agree, and must accept exactly the matching version
    for (i, m) in honest.iter().enumerate() {
        for vv in [PlonkVersion::V1, PlonkVersion::V2, PlonkVersion::V3] {
            let env_v = ctx.env(&mut s);
            let d = deliver(ctx, &node, m, vv, &env_v)?;
            ctx.st.eval(sig ^ 0x31 ^ (i as u64) << 4 ^ vv as u64, vv != m.version);
            if vv == m.version && !d.accepted() {
                // both implementations reject an honest proof: consistent, but not the protocol
                return Err(Violation::new("I-refine", format!("an honest {} proof is rejected by the real and the reference verifier alike: {:?}", deploy::version_name(vv), d)));
            }
        }
    }
    // 2. corrupted / substituted / spliced messages
    let mut faults: Vec<ChanFault> = Vec::new();
    let n_rand = if ctx.thorough { 60 } else { 24 };
    for _ in 0..n_rand {
        faults.push(random_proof_fault(&mut f));
    }
    for _ in 0..4 {
        faults.push(random_pi_fault(&mut f));
    }
    // every field once: neutral element, fresh valid element, same field of the other honest proof
    let field_pass = f.usize(3);
    for i in 0..26 {
        faults.push(match field_pass {
            0 => ChanFault::NeutralField(i),
            1 => ChanFault::FreshField(i),
            _ => ChanFault::SpliceField(i),
        });
    }
    // sampled single-bit flips (the thorough tier enumerates all 8064 on selected runs)
    let exhaustive = ctx.thorough && (ctx.run % 64 == 0 || ctx.spec.flag("exhaustive_bits"));
    if exhaustive {
        for b in 0..PROOF_SIZE * 8 {
            faults.push(ChanFault::BitFlip(b));
        }
        ctx.st.probe("exhaustive_single_bit_flip_sweeps(8064 each)");
    } else {
        for _ in 0..32 {
            faults.push(ChanFault::BitFlip(f.usize(PROOF_SIZE * 8)));
        }
    }
    ctx.hints.n_faults = faults.len();
    let keep = if ctx.spec.get("keepf").is_some() { Some(ctx.spec.list("keepf")) } else { None };
    for (idx, fault) in faults.iter().enumerate() {
        if let Some(k) = &keep {
            if !k.contains(&idx) {
                // keep the fault stream aligned: faults that draw randomness must still draw it
                let _ = apply(&honest[0], fault, Some(&honest[1]), &mut f);
                continue;
            }
        }
        let m = apply(&honest[0], fault, Some(&honest[1]), &mut f);
        // the proof decoder reads a 1008-byte prefix; trailing bytes are not part of the message
        let prefix = |x: &Msg| x.proof[..x.proof.len().min(PROOF_SIZE)].to_vec();
        let changed = prefix(&m) != prefix(&honest[0]) || m.pi != honest[0].pi;
        ctx.st.fault(fault.kind());
        let env_v = ctx.env(&mut s);
        let d = deliver(ctx, &node, &m, m.version, &env_v)?;
        ctx.st.eval(sig ^ digest(&m.proof) ^ digest(fault.kind().as_bytes()), changed);
        if changed && d.accepted() {
            ctx.note("fault", J::s(format!("{:?}", fault)));
            return Err(Violation::new("I-refine", format!("a corrupted message ({}) is accepted by the real and the reference verifier alike", fault.kind())));
        }
    }
    // 3. cross-circuit: the honest proof delivered to the verifier of a near-miss circuit
    if !ctx.spec.flag("nomisroute") {
        ctx.hints.extra.push(("nomisroute".into(), "1".into()));
        let (prog2, what) = near_miss(&sc.prog, &mut f);
        let prog2 = Arc::new(prog2);
        let c2 = crate::program::count_constraints(&prog2).unwrap_or(0);
        let pp2 = deploy::pp_with_degree(sc.degree.max(deploy::min_degree_for(c2)));
        let env2 = ctx.env(&mut s);
        if let Ok((_, v2)) = deploy::compile(&pp2, &sc.label, &prog2, Route::WithCircuit, &env2) {
            let node2 = VerifierNode::new(v2)?;
            if node2.bytes != node.bytes {
                ctx.st.fault(&format!("chan.misroute.{}", what));
                let env_v = ctx.env(&mut s);
                let d = deliver(ctx, &node2, &honest[0], honest[0].version, &env_v)?;
                ctx.st.eval(sig ^ 0x77 ^ digest(what.as_bytes()), true);
                // a public input moved to another row: if every moved input is zero the two descriptions
                // state the same thing for this vector and acceptance is correct (see C04 / DESIGN.md 9.7)
                let same_statement = what == "public_input_moved_to_another_row" && {
                    let nz = |rows: &[u64], pi: &[BlsScalar]| -> Vec<(u64, BlsScalar)> {
                        rows.iter().zip(pi.iter()).filter(|(_, v)| **v != BlsScalar::zero()).map(|(r, v)| (*r, *v)).collect()
                    };
                    nz(&node.rm.pi_rows, &honest[0].pi) == nz(&node2.rm.pi_rows, &honest[0].pi)
                };
                if d.accepted() && same_statement {
                    ctx.st.probe("moved_public_input_is_zero(same statement, accepted)");
                } else if d.accepted() {
                    return Err(Violation::new("I-refine", format!("proof accepted by both verifiers of a different circuit ({})", what)));
                }
            }
        }
    }
    ctx.st.sample(J::obj(vec![
        ("run", J::U(ctx.run)),
        ("program", J::s(crate::program::describe(&sc.prog))),
        ("constraints", J::U(sc.constraints as u64)),
        ("messages_mirrored", J::U((faults.len() + 9) as u64)),
        ("exhaustive_bit_sweep", J::Bool(exhaustive)),
        ("sample_faults", J::A(faults.iter().take(4).map(|x| J::s(format!("{:?}", x))).collect())),
    ]));
    Ok(())
}

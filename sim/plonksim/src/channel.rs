//! The simulated channel between prover and verifier nodes, and its fault
//! catalogue (DESIGN.md section 3.4).  A message is
//! `(proof bytes, public inputs, version)`; the destination verifier is chosen
//! by the caller (misrouting is a delivery to another verifier).

use dusk_bls12_381::{BlsScalar, G1Affine, G1Projective};
use dusk_bytes::Serializable;
use dusk_plonk::prelude::PlonkVersion;

use crate::prng::Rng;

pub type Sc = BlsScalar;

pub const PROOF_SIZE: usize = 11 * 48 + 15 * 32;
pub const N_COMMS: usize = 11;
pub const N_EVALS: usize = 15;

#[derive(Clone, Debug, PartialEq)]
pub struct Msg {
    pub proof: Vec<u8>,
    pub pi: Vec<Sc>,
    pub version: PlonkVersion,
}

#[derive(Clone, Debug, PartialEq)]
pub enum ChanFault {
    BitFlip(usize),
    MultiBitFlip(Vec<usize>),
    Truncate(usize),
    Extend(usize),
    ZeroProof,
    IdentityProof,
    /// field i (0..26) replaced by the same field of the other proof
    SpliceField(usize),
    /// every field chosen from self or other by mask bit
    SpliceMask(u32),
    /// field i replaced by field j of the same proof (same type)
    SwapField(usize, usize),
    /// field i replaced by a fresh valid element
    FreshField(usize),
    /// field i replaced by zero scalar / identity point
    NeutralField(usize),
    /// evaluation slot j (0..15) re-encoded non-canonically as value + r
    EvalPlusModulus(usize),
    /// evaluation slot j set to a fixed non-canonical string: the modulus r itself (a second
    /// encoding of zero), r + 1, 2r, 2^255, 2^256 - 1
    EvalSetNonCanonical(usize, usize),
    /// commitment slot i (0..11): games with the three flag bits / non-canonical forms of the
    /// compressed G1 encoding (variant 0..8)
    CommFlagGame(usize, usize),
    PiReplace(usize, Sc),
    PiAddOne(usize),
    PiSubOne(usize),
    PiZero(usize),
    PiSwap(usize, usize),
    PiDrop(usize),
    PiDup(usize),
    PiAppend(Sc),
    PiPrepend(Sc),
    PiClear,
    PiAllZero,
}

impl ChanFault {
    pub fn kind(&self) -> &'static str {
        match self {
            ChanFault::BitFlip(_) => "chan.bitflip",
            ChanFault::MultiBitFlip(_) => "chan.multibitflip",
            ChanFault::Truncate(_) => "chan.truncate",
            ChanFault::Extend(_) => "chan.extend",
            ChanFault::ZeroProof => "chan.zero_proof",
            ChanFault::IdentityProof => "chan.identity_proof",
            ChanFault::SpliceField(_) => "chan.splice_field",
            ChanFault::SpliceMask(_) => "chan.splice_mask",
            ChanFault::SwapField(..) => "chan.swap_field",
            ChanFault::FreshField(_) => "chan.fresh_field",
            ChanFault::NeutralField(_) => "chan.neutral_field",
            ChanFault::EvalPlusModulus(_) => "chan.eval_plus_modulus",
            ChanFault::EvalSetNonCanonical(..) => "chan.eval_set_noncanonical",
            ChanFault::CommFlagGame(..) => "chan.commitment_flag_game",
            ChanFault::PiReplace(..) => "chan.pi_replace",
            ChanFault::PiAddOne(_) => "chan.pi_plus_one",
            ChanFault::PiSubOne(_) => "chan.pi_minus_one",
            ChanFault::PiZero(_) => "chan.pi_zero",
            ChanFault::PiSwap(..) => "chan.pi_swap",
            ChanFault::PiDrop(_) => "chan.pi_drop",
            ChanFault::PiDup(_) => "chan.pi_dup",
            ChanFault::PiAppend(_) => "chan.pi_append",
            ChanFault::PiPrepend(_) => "chan.pi_prepend",
            ChanFault::PiClear => "chan.pi_clear",
            ChanFault::PiAllZero => "chan.pi_all_zero",
        }
    }
}

pub fn field_range(i: usize) -> std::ops::Range<usize> {
    if i < N_COMMS {
        48 * i..48 * (i + 1)
    } else {
        let j = i - N_COMMS;
        528 + 32 * j..528 + 32 * (j + 1)
    }
}

pub fn identity_g1_bytes() -> [u8; 48] {
    G1Affine::identity().to_bytes()
}

pub fn random_g1_bytes(rng: &mut Rng) -> [u8; 48] {
    let s = rng.scalar();
    G1Affine::from(G1Projective::generator() * s).to_bytes()
}

/// Apply one fault to a message.  `other`: another valid message for the same circuit.
pub fn apply(msg: &Msg, fault: &ChanFault, other: Option<&Msg>, rng: &mut Rng) -> Msg {
    let mut m = msg.clone();
    match fault {
        ChanFault::BitFlip(bit) => {
            let bit = bit % (m.proof.len() * 8).max(1);
            if !m.proof.is_empty() {
                m.proof[bit / 8] ^= 1 << (bit % 8);
            }
        }
        ChanFault::MultiBitFlip(bits) => {
            for bit in bits {
                let bit = bit % (m.proof.len() * 8).max(1);
                if !m.proof.is_empty() {
                    m.proof[bit / 8] ^= 1 << (bit % 8);
                }
            }
        }
        ChanFault::Truncate(len) => m.proof.truncate(*len),
        ChanFault::Extend(n) => {
            let extra = rng.bytes(*n);
            m.proof.extend(extra);
        }
        ChanFault::ZeroProof => m.proof = vec![0u8; PROOF_SIZE],
        ChanFault::IdentityProof => {
            let mut p = Vec::with_capacity(PROOF_SIZE);
            for _ in 0..N_COMMS {
                p.extend_from_slice(&identity_g1_bytes());
            }
            p.extend_from_slice(&[0u8; 15 * 32]);
            m.proof = p;
        }
        ChanFault::SpliceField(i) => {
            if let Some(o) = other {
                let r = field_range(*i % 26);
                if o.proof.len() == PROOF_SIZE && m.proof.len() == PROOF_SIZE {
                    m.proof[r.clone()].copy_from_slice(&o.proof[r]);
                }
            }
        }
        ChanFault::SpliceMask(mask) => {
            if let Some(o) = other {
                if o.proof.len() == PROOF_SIZE && m.proof.len() == PROOF_SIZE {
                    for i in 0..26 {
                        if mask & (1 << i) != 0 {
                            let r = field_range(i);
                            m.proof[r.clone()].copy_from_slice(&o.proof[r]);
                        }
                    }
                }
            }
        }
        ChanFault::SwapField(i, j) => {
            let (i, j) = (*i % 26, *j % 26);
            if (i < N_COMMS) == (j < N_COMMS) && m.proof.len() == PROOF_SIZE {
                let src = m.proof[field_range(j)].to_vec();
                m.proof[field_range(i)].copy_from_slice(&src);
            }
        }
        ChanFault::FreshField(i) => {
            let i = *i % 26;
            if m.proof.len() == PROOF_SIZE {
                if i < N_COMMS {
                    let b = random_g1_bytes(rng);
                    m.proof[field_range(i)].copy_from_slice(&b);
                } else {
                    let b = rng.scalar().to_bytes();
                    m.proof[field_range(i)].copy_from_slice(&b);
                }
            }
        }
        ChanFault::NeutralField(i) => {
            let i = *i % 26;
            if m.proof.len() == PROOF_SIZE {
                if i < N_COMMS {
                    m.proof[field_range(i)].copy_from_slice(&identity_g1_bytes());
                } else {
                    m.proof[field_range(i)].copy_from_slice(&[0u8; 32]);
                }
            }
        }
        ChanFault::CommFlagGame(i, variant) => {
            if m.proof.len() >= PROOF_SIZE {
                let r = field_range(i % N_COMMS);
                let slot = &mut m.proof[r];
                // the base-field modulus, big-endian (the compressed encoding is big-endian x with flags in the top bits)
                const P: [u8; 48] = [
                    0x1a, 0x01, 0x11, 0xea, 0x39, 0x7f, 0xe6, 0x9a, 0x4b, 0x1b, 0xa7, 0xb6, 0x43, 0x4b, 0xac, 0xd7, 0x64, 0x77, 0x4b, 0x84, 0xf3, 0x85, 0x12, 0xbf, 0x67, 0x30, 0xd2, 0xa0,
                    0xf6, 0xb0, 0xf6, 0x24, 0x1e, 0xab, 0xff, 0xfe, 0xb1, 0x53, 0xff, 0xff, 0xb9, 0xfe, 0xff, 0xff, 0xff, 0xff, 0xaa, 0xab,
                ];
                match variant % 9 {
                    // infinity flag over the coordinate bytes that are there
                    0 => slot[0] = 0xc0,
                    // infinity flag, one stray low bit
                    1 => {
                        for b in slot.iter_mut() {
                            *b = 0;
                        }
                        slot[0] = 0xc0;
                        slot[47] = 1;
                    }
                    // infinity flag added to a finite point
                    2 => slot[0] |= 0x40,
                    // compression flag cleared
                    3 => slot[0] &= 0x7f,
                    // identity with the sort flag
                    4 => {
                        for b in slot.iter_mut() {
                            *b = 0;
                        }
                        slot[0] = 0xe0;
                    }
                    // x = p (a non-reduced zero) with the compression flag
                    5 => {
                        slot.copy_from_slice(&P);
                        slot[0] |= 0x80;
                    }
                    // infinity flag over a random tail byte
                    6 => {
                        slot[0] = 0xc0;
                        let k = 1 + rng.usize(47);
                        slot[k] ^= 1 << rng.below(8);
                    }
                    // all flags set
                    7 => slot[0] |= 0xe0,
                    // x + p where that still fits 381 bits: only if x is small; else the sort flag flipped (the other root)
                    _ => slot[0] ^= 0x20,
                }
            }
        }
        ChanFault::EvalSetNonCanonical(j, variant) => {
            if m.proof.len() >= PROOF_SIZE {
                const R_LE: [u8; 32] = [
                    0x01, 0x00, 0x00, 0x00, 0xff, 0xff, 0xff, 0xff, 0xfe, 0x5b, 0xfe, 0xff, 0x02, 0xa4, 0xbd, 0x53, 0x05, 0xd8, 0xa1, 0x09, 0x08, 0xd8,
                    0x39, 0x33, 0x48, 0x7d, 0x9d, 0x29, 0x53, 0xa7, 0xed, 0x73,
                ];
                let r = field_range(N_COMMS + (*j % N_EVALS));
                let slot = &mut m.proof[r];
                match variant % 5 {
                    0 => slot.copy_from_slice(&R_LE),
                    1 => {
                        slot.copy_from_slice(&R_LE);
                        slot[0] = 0x02;
                    }
                    2 => {
                        // 2r (fits 256 bits)
                        let mut carry = 0u16;
                        for (k, b) in slot.iter_mut().enumerate() {
                            let v = 2 * R_LE[k] as u16 + carry;
                            *b = v as u8;
                            carry = v >> 8;
                        }
                    }
                    3 => {
                        for b in slot.iter_mut() {
                            *b = 0;
                        }
                        slot[31] = 0x80;
                    }
                    _ => {
                        for b in slot.iter_mut() {
                            *b = 0xff;
                        }
                    }
                }
            }
        }
        ChanFault::EvalPlusModulus(j) => {
            if m.proof.len() == PROOF_SIZE {
                // r, little-endian
                const R_LE: [u8; 32] = [
                    0x01, 0x00, 0x00, 0x00, 0xff, 0xff, 0xff, 0xff, 0xfe, 0x5b, 0xfe, 0xff, 0x02, 0xa4, 0xbd, 0x53, 0x05, 0xd8, 0xa1, 0x09, 0x08, 0xd8,
                    0x39, 0x33, 0x48, 0x7d, 0x9d, 0x29, 0x53, 0xa7, 0xed, 0x73,
                ];
                let r = field_range(N_COMMS + (*j % N_EVALS));
                let mut carry = 0u16;
                for (k, b) in m.proof[r].iter_mut().enumerate() {
                    let v = *b as u16 + R_LE[k] as u16 + carry;
                    *b = v as u8;
                    carry = v >> 8;
                }
            }
        }
        ChanFault::PiReplace(i, v) => {
            if !m.pi.is_empty() {
                let i = *i % m.pi.len();
                m.pi[i] = *v;
            }
        }
        ChanFault::PiAddOne(i) => {
            if !m.pi.is_empty() {
                let i = *i % m.pi.len();
                m.pi[i] += Sc::one();
            }
        }
        ChanFault::PiSubOne(i) => {
            if !m.pi.is_empty() {
                let i = *i % m.pi.len();
                m.pi[i] -= Sc::one();
            }
        }
        ChanFault::PiZero(i) => {
            if !m.pi.is_empty() {
                let i = *i % m.pi.len();
                m.pi[i] = Sc::zero();
            }
        }
        ChanFault::PiSwap(i, j) => {
            if !m.pi.is_empty() {
                let (i, j) = (*i % m.pi.len(), *j % m.pi.len());
                m.pi.swap(i, j);
            }
        }
        ChanFault::PiDrop(i) => {
            if !m.pi.is_empty() {
                let i = *i % m.pi.len();
                m.pi.remove(i);
            }
        }
        ChanFault::PiDup(i) => {
            if !m.pi.is_empty() {
                let i = *i % m.pi.len();
                let v = m.pi[i];
                m.pi.insert(i, v);
            }
        }
        ChanFault::PiAppend(v) => m.pi.push(*v),
        ChanFault::PiPrepend(v) => m.pi.insert(0, *v),
        ChanFault::PiClear => m.pi.clear(),
        ChanFault::PiAllZero => {
            for p in m.pi.iter_mut() {
                *p = Sc::zero();
            }
        }
    }
    m
}

/// A random proof-side fault.
pub fn random_proof_fault(rng: &mut Rng) -> ChanFault {
    match rng.below(16) {
        15 => ChanFault::EvalSetNonCanonical(rng.usize(N_EVALS), rng.usize(5)),
        12 => ChanFault::EvalPlusModulus(rng.usize(N_EVALS)),
        13 | 14 => ChanFault::CommFlagGame(rng.usize(N_COMMS), rng.usize(9)),
        0 | 1 | 2 => ChanFault::BitFlip(rng.usize(PROOF_SIZE * 8)),
        3 => ChanFault::MultiBitFlip((0..2 + rng.usize(3)).map(|_| rng.usize(PROOF_SIZE * 8)).collect()),
        4 => ChanFault::Truncate(rng.usize(PROOF_SIZE)),
        5 => ChanFault::Extend(1 + rng.usize(64)),
        6 => ChanFault::SpliceField(rng.usize(26)),
        7 => ChanFault::SpliceMask((rng.u64() as u32) & ((1 << 26) - 1)),
        8 => ChanFault::SwapField(rng.usize(26), rng.usize(26)),
        9 => ChanFault::FreshField(rng.usize(26)),
        10 => ChanFault::NeutralField(rng.usize(26)),
        _ => {
            if rng.chance(1, 2) {
                ChanFault::ZeroProof
            } else {
                ChanFault::IdentityProof
            }
        }
    }
}

/// A random public-input-side fault.
pub fn random_pi_fault(rng: &mut Rng) -> ChanFault {
    match rng.below(11) {
        0 => ChanFault::PiReplace(rng.usize(64), rng.scalar_edgy()),
        1 => ChanFault::PiAddOne(rng.usize(64)),
        2 => ChanFault::PiSubOne(rng.usize(64)),
        3 => ChanFault::PiZero(rng.usize(64)),
        4 => ChanFault::PiSwap(rng.usize(64), rng.usize(64)),
        5 => ChanFault::PiDrop(rng.usize(64)),
        6 => ChanFault::PiDup(rng.usize(64)),
        7 => ChanFault::PiAppend(if rng.chance(1, 2) { Sc::zero() } else { rng.scalar_edgy() }),
        8 => ChanFault::PiPrepend(if rng.chance(1, 2) { Sc::zero() } else { rng.scalar_edgy() }),
        9 => ChanFault::PiClear,
        _ => ChanFault::PiAllZero,
    }
}


/// A forgery solved for from public data only (Byzantine strategy 7, "re-balanced opening
/// witnesses"): the two opening witnesses of a valid proof are shifted against each other,
/// `W_zw += c [x - z]`, `W_z -= u c [x - z w]`, with z and u taken from the protocol's transcript
/// of the *original* proof.  The shifted pair satisfies the batched pairing equation for the old
/// u; a verifier whose u depends on the two witnesses (as the protocol demands) draws another u
/// and rejects.  `x1` is [x]_1, the second SRS point.
pub fn rebalance_openings(msg: &Msg, vf: &crate::rm_verify::RefVerifier, x1: &G1Affine, c: Sc) -> Option<Msg> {
    use crate::rm_verify::{challenges, domain_for, RefProof};
    if msg.proof.len() != PROOF_SIZE || msg.pi.len() != vf.pi_rows.len() {
        return None;
    }
    let pf = RefProof::parse(&msg.proof)?;
    let ch = challenges(vf, &pf, &msg.pi, crate::mirror::to_rm_version(msg.version));
    let (_, omega) = domain_for(vf.n)?;
    let g = G1Projective::from(vf.g);
    let x = G1Projective::from(*x1);
    let d2 = (x - g * ch.z) * c;
    let d1 = (x - g * (ch.z * omega)) * (-(ch.u * c));
    let w_z = G1Affine::from(G1Projective::from(pf.comms[9]) + d1);
    let w_zw = G1Affine::from(G1Projective::from(pf.comms[10]) + d2);
    let mut m = msg.clone();
    m.proof[field_range(9)].copy_from_slice(&w_z.to_bytes());
    m.proof[field_range(10)].copy_from_slice(&w_zw.to_bytes());
    Some(m)
}

//! RM-verify — an independent reference verifier, written from the protocol
//! description.  It consumes only serialized bytes: `Verifier::to_bytes()`,
//! `Proof::to_bytes()`, the public inputs and the protocol version.  Nothing
//! from /repo is called.  Group arithmetic is plain scalar multiplication
//! (no MSM regrouping), Lagrange / public-input evaluation is direct
//! summation with individual inversions.
//!
//! Trusted base of C01/C02/C03/C04/C16 mirrors.

use dusk_bls12_381::{pairing, BlsScalar, G1Affine, G1Projective, G2Affine, ROOT_OF_UNITY, TWO_ADACITY};
use dusk_bytes::Serializable;
use dusk_jubjub::EDWARDS_D;
use merlin::Transcript;

type Fr = BlsScalar;

#[derive(Clone, Copy, Debug, PartialEq, Eq)]
pub enum Version {
    V1,
    V2,
    V3,
}

#[derive(Clone, Debug, PartialEq, Eq)]
pub enum Verdict {
    Accept,
    /// rejected; the string says where
    Reject(&'static str),
    /// the verifier bytes themselves do not parse (not a verdict on a proof)
    BadVerifier(&'static str),
}

impl Verdict {
    pub fn accepted(&self) -> bool {
        matches!(self, Verdict::Accept)
    }
}

pub struct RefVerifier {
    pub label: Vec<u8>,
    pub constraints: u64,
    pub size: u64,
    pub n: u64,
    /// q_m q_l q_r q_o q_f q_c q_arith q_logic q_range q_fixed q_var s1 s2 s3 s4 (byte order)
    pub comms: [G1Affine; 15],
    pub g: G1Affine,
    pub h: G2Affine,
    pub x_h: G2Affine,
    pub pi_rows: Vec<u64>,
}

fn be64(b: &[u8]) -> u64 {
    let mut x = [0u8; 8];
    x.copy_from_slice(&b[..8]);
    u64::from_be_bytes(x)
}

fn g1(b: &[u8]) -> Option<G1Affine> {
    let mut x = [0u8; 48];
    x.copy_from_slice(&b[..48]);
    G1Affine::from_bytes(&x).ok()
}

fn g2(b: &[u8]) -> Option<G2Affine> {
    let mut x = [0u8; 96];
    x.copy_from_slice(&b[..96]);
    G2Affine::from_bytes(&x).ok()
}

fn fr(b: &[u8]) -> Option<Fr> {
    let mut x = [0u8; 32];
    x.copy_from_slice(&b[..32]);
    Option::<Fr>::from(Fr::from_bytes(&x))
}

impl RefVerifier {
    /// Parse `Verifier::to_bytes()`.
    pub fn parse(bytes: &[u8]) -> Result<RefVerifier, &'static str> {
        if bytes.len() < 48 {
            return Err("short header");
        }
        let label_len = be64(&bytes[0..]) as usize;
        let vk_len = be64(&bytes[8..]) as usize;
        let ok_len = be64(&bytes[16..]) as usize;
        let pi_len = be64(&bytes[24..]) as usize;
        let size = be64(&bytes[32..]);
        let constraints = be64(&bytes[40..]);
        let body = &bytes[48..];
        let need = label_len
            .checked_add(vk_len)
            .and_then(|x| x.checked_add(ok_len))
            .and_then(|x| pi_len.checked_mul(8).and_then(|p| x.checked_add(p)))
            .ok_or("length overflow")?;
        if body.len() < need {
            return Err("short body");
        }
        let label = body[..label_len].to_vec();
        let vk = &body[label_len..label_len + vk_len];
        let ok = &body[label_len + vk_len..label_len + vk_len + ok_len];
        let pis = &body[label_len + vk_len + ok_len..label_len + vk_len + ok_len + pi_len * 8];
        if vk.len() < 8 + 15 * 48 {
            return Err("short verifier key");
        }
        let mut n8 = [0u8; 8];
        n8.copy_from_slice(&vk[..8]);
        let n = u64::from_le_bytes(n8);
        let mut comms = [G1Affine::identity(); 15];
        for (i, c) in comms.iter_mut().enumerate() {
            *c = g1(&vk[8 + 48 * i..]).ok_or("bad verifier-key commitment")?;
        }
        if ok.len() < 48 + 96 + 96 {
            return Err("short opening key");
        }
        let g = g1(&ok[0..]).ok_or("bad g")?;
        let h = g2(&ok[48..]).ok_or("bad h")?;
        let x_h = g2(&ok[144..]).ok_or("bad x_h")?;
        let pi_rows = pis.chunks_exact(8).map(be64).collect();
        Ok(RefVerifier { label, constraints, size, n, comms, g, h, x_h, pi_rows })
    }
}

pub struct RefProof {
    /// a b c d z t_low t_mid t_high t_fourth w_z w_zw
    pub comms: [G1Affine; 11],
    /// a b c d a_w b_w d_w q_arith q_c q_l q_r s1 s2 s3 z_eval
    pub evals: [Fr; 15],
}

impl RefProof {
    pub fn parse(bytes: &[u8]) -> Option<RefProof> {
        if bytes.len() != 11 * 48 + 15 * 32 {
            return None;
        }
        let mut comms = [G1Affine::identity(); 11];
        for (i, c) in comms.iter_mut().enumerate() {
            *c = g1(&bytes[48 * i..])?;
        }
        let mut evals = [Fr::zero(); 15];
        for (i, e) in evals.iter_mut().enumerate() {
            *e = fr(&bytes[528 + 32 * i..])?;
        }
        Some(RefProof { comms, evals })
    }
}

fn leak_label(label: &[u8]) -> &'static [u8] {
    // merlin wants a 'static label; the reference keeps its own small cache
    use std::cell::RefCell;
    use std::collections::BTreeMap;
    thread_local! {
        static CACHE: RefCell<BTreeMap<Vec<u8>, &'static [u8]>> = const { RefCell::new(BTreeMap::new()) };
    }
    CACHE.with(|c| {
        let mut c = c.borrow_mut();
        if let Some(l) = c.get(label) {
            return *l;
        }
        let l: &'static [u8] = Box::leak(label.to_vec().into_boxed_slice());
        c.insert(label.to_vec(), l);
        l
    })
}

fn t_comm(t: &mut Transcript, label: &'static [u8], p: &G1Affine) {
    t.append_message(label, &p.to_bytes());
}
fn t_scalar(t: &mut Transcript, label: &'static [u8], s: &Fr) {
    t.append_message(label, &s.to_bytes());
}
fn t_chal(t: &mut Transcript, label: &'static [u8]) -> Fr {
    let mut buf = [0u8; 64];
    t.challenge_bytes(label, &mut buf);
    Fr::from_bytes_wide(&buf)
}
fn t_domsep(t: &mut Transcript, n: u64) {
    t.append_message(b"dom-sep", b"circuit_size");
    t.append_u64(b"n", n);
}

pub struct Challenges {
    pub beta: Fr,
    pub gamma: Fr,
    pub alpha: Fr,
    pub range_sep: Fr,
    pub logic_sep: Fr,
    pub fixed_sep: Fr,
    pub var_sep: Fr,
    pub z: Fr,
    pub v: Fr,
    pub v_w: Fr,
    pub u: Fr,
}

/// The protocol's transcript: label, circuit size, the 15 verifier-key
/// commitments (the fourth permutation commitment only in V3; before V3 the
/// first one is absorbed again in its place), n, every public input, then the
/// proof elements in protocol order.
pub fn challenges(vf: &RefVerifier, pf: &RefProof, pi: &[Fr], version: Version) -> Challenges {
    let mut t = Transcript::new(leak_label(&vf.label));
    t_domsep(&mut t, vf.constraints);
    let c = &vf.comms;
    t_comm(&mut t, b"q_m", &c[0]);
    t_comm(&mut t, b"q_l", &c[1]);
    t_comm(&mut t, b"q_r", &c[2]);
    t_comm(&mut t, b"q_o", &c[3]);
    t_comm(&mut t, b"q_c", &c[5]);
    t_comm(&mut t, b"q_f", &c[4]);
    t_comm(&mut t, b"q_arith", &c[6]);
    t_comm(&mut t, b"q_range", &c[8]);
    t_comm(&mut t, b"q_logic", &c[7]);
    t_comm(&mut t, b"q_variable_group_add", &c[10]);
    t_comm(&mut t, b"q_fixed_group_add", &c[9]);
    t_comm(&mut t, b"s_sigma_1", &c[11]);
    t_comm(&mut t, b"s_sigma_2", &c[12]);
    t_comm(&mut t, b"s_sigma_3", &c[13]);
    match version {
        Version::V3 => t_comm(&mut t, b"s_sigma_4", &c[14]),
        _ => t_comm(&mut t, b"s_sigma_4", &c[11]),
    }
    t_domsep(&mut t, vf.n);
    for p in pi {
        t_scalar(&mut t, b"pi", p);
    }
    let pc = &pf.comms;
    let e = &pf.evals;
    t_comm(&mut t, b"a_comm", &pc[0]);
    t_comm(&mut t, b"b_comm", &pc[1]);
    t_comm(&mut t, b"c_comm", &pc[2]);
    t_comm(&mut t, b"d_comm", &pc[3]);
    let beta = t_chal(&mut t, b"beta");
    t_scalar(&mut t, b"beta", &beta);
    let gamma = t_chal(&mut t, b"gamma");
    t_comm(&mut t, b"z_comm", &pc[4]);
    let alpha = t_chal(&mut t, b"alpha");
    let range_sep = t_chal(&mut t, b"range separation challenge");
    let logic_sep = t_chal(&mut t, b"logic separation challenge");
    let fixed_sep = t_chal(&mut t, b"fixed base separation challenge");
    let var_sep = t_chal(&mut t, b"variable base separation challenge");
    t_comm(&mut t, b"t_low_comm", &pc[5]);
    t_comm(&mut t, b"t_mid_comm", &pc[6]);
    t_comm(&mut t, b"t_high_comm", &pc[7]);
    t_comm(&mut t, b"t_fourth_comm", &pc[8]);
    let z = t_chal(&mut t, b"z_challenge");
    t_scalar(&mut t, b"a_eval", &e[0]);
    t_scalar(&mut t, b"b_eval", &e[1]);
    t_scalar(&mut t, b"c_eval", &e[2]);
    t_scalar(&mut t, b"d_eval", &e[3]);
    t_scalar(&mut t, b"s_sigma_1_eval", &e[11]);
    t_scalar(&mut t, b"s_sigma_2_eval", &e[12]);
    t_scalar(&mut t, b"s_sigma_3_eval", &e[13]);
    t_scalar(&mut t, b"z_eval", &e[14]);
    t_scalar(&mut t, b"a_w_eval", &e[4]);
    t_scalar(&mut t, b"b_w_eval", &e[5]);
    t_scalar(&mut t, b"d_w_eval", &e[6]);
    t_scalar(&mut t, b"q_arith_eval", &e[7]);
    t_scalar(&mut t, b"q_c_eval", &e[8]);
    t_scalar(&mut t, b"q_l_eval", &e[9]);
    t_scalar(&mut t, b"q_r_eval", &e[10]);
    let v = t_chal(&mut t, b"v_challenge");
    let v_w = t_chal(&mut t, b"v_w_challenge");
    t_comm(&mut t, b"w_z_chall_comm", &pc[9]);
    t_comm(&mut t, b"w_z_chall_w_comm", &pc[10]);
    let u = t_chal(&mut t, b"u_challenge");
    Challenges { beta, gamma, alpha, range_sep, logic_sep, fixed_sep, var_sep, z, v, v_w, u }
}

pub fn pow_u64(x: Fr, mut e: u64) -> Fr {
    let mut base = x;
    let mut acc = Fr::one();
    while e > 0 {
        if e & 1 == 1 {
            acc *= base;
        }
        base = base.square();
        e >>= 1;
    }
    acc
}

/// (domain size N, generator omega) for `n` rows; None if no such domain exists.
pub fn domain_for(n: u64) -> Option<(u64, Fr)> {
    let size = if n <= 1 { 1 } else { n.checked_next_power_of_two()? };
    let log = size.trailing_zeros();
    if log >= TWO_ADACITY {
        return None;
    }
    let mut w = ROOT_OF_UNITY;
    for _ in log..TWO_ADACITY {
        w = w.square();
    }
    Some((size, w))
}

fn delta4(f: Fr) -> Fr {
    // f (f-1)(f-2)(f-3): vanishes exactly on the base-4 digits
    f * (f - Fr::one()) * (f - Fr::from(2u64)) * (f - Fr::from(3u64))
}

/// The logic widget's fifth component: for base-4 digits a, b, their product
/// w = a*b and a result digit d, it vanishes iff d = a AND b (q_c = +1) or
/// d = a XOR b (q_c = -1).  (Expanded form; checked against the truth table by
/// `selfcheck_logic_identity`.)
pub fn logic_fifth(a: Fr, b: Fr, w: Fr, d: Fr, q_c: Fr) -> Fr {
    let s = a + b;
    let sq = a.square() + b.square();
    let four = Fr::from(4u64);
    let eighteen = Fr::from(18u64);
    let eighty_one = Fr::from(81u64);
    let eighty_three = Fr::from(83u64);
    let f = w * (four * w.square() - eighteen * s * w + eighty_one * w + eighteen * sq - eighty_one * s + eighty_three);
    Fr::from(3u64) * (s + d) - Fr::from(2u64) * f + q_c * (Fr::from(9u64) * d - Fr::from(3u64) * s)
}

/// Truth-table self check of `logic_fifth` (independent of /repo).
pub fn selfcheck_logic_identity() -> bool {
    for a in 0u64..4 {
        for b in 0u64..4 {
            for d in 0u64..4 {
                let (fa, fb, fd) = (Fr::from(a), Fr::from(b), Fr::from(d));
                let w = fa * fb;
                let and_ok = logic_fifth(fa, fb, w, fd, Fr::one()) == Fr::zero();
                let xor_ok = logic_fifth(fa, fb, w, fd, -Fr::one()) == Fr::zero();
                if and_ok != (d == (a & b)) || xor_ok != (d == (a ^ b)) {
                    return false;
                }
            }
        }
    }
    true
}

fn mul(p: &G1Affine, s: &Fr) -> G1Projective {
    G1Projective::from(*p) * *s
}

/// Decide a (verifier bytes, proof bytes, public inputs, version) tuple.
pub fn verify(verifier_bytes: &[u8], proof_bytes: &[u8], pi: &[Fr], version: Version) -> Verdict {
    let vf = match RefVerifier::parse(verifier_bytes) {
        Ok(v) => v,
        Err(e) => return Verdict::BadVerifier(e),
    };
    let pf = match RefProof::parse(proof_bytes) {
        Some(p) => p,
        None => return Verdict::Reject("proof does not decode"),
    };
    verify_parsed(&vf, &pf, pi, version)
}

pub fn verify_parsed(vf: &RefVerifier, pf: &RefProof, pi: &[Fr], version: Version) -> Verdict {
    verify_parsed_with_u(vf, pf, pi, version, None)
}

/// `u_override`: evaluate the equation with a batching challenge u that is *not* the transcript's
/// (only used by the harness to check that a forgery it constructs is the one it means to
/// construct: balanced for the old u, hence rejected only because u is bound to the openings).
pub fn verify_parsed_with_u(vf: &RefVerifier, pf: &RefProof, pi: &[Fr], version: Version, u_override: Option<Fr>) -> Verdict {
    LAST_PRODUCT.with(|c| c.set(None));
    if pi.len() != vf.pi_rows.len() {
        return Verdict::Reject("public-input length");
    }
    let (n_dom, omega) = match domain_for(vf.n) {
        Some(d) => d,
        None => return Verdict::BadVerifier("no evaluation domain for n"),
    };
    let mut ch = challenges(vf, pf, pi, version);
    if let Some(u) = u_override {
        ch.u = u;
    }
    let e = &pf.evals;
    let (a, b, c, d) = (e[0], e[1], e[2], e[3]);
    let (a_w, b_w, d_w) = (e[4], e[5], e[6]);
    let (q_arith, q_c, q_l, q_r) = (e[7], e[8], e[9], e[10]);
    let (s1, s2, s3, z_eval) = (e[11], e[12], e[13], e[14]);
    let z = ch.z;
    let one = Fr::one();

    // vanishing polynomial, first Lagrange polynomial, public-input polynomial at z
    let z_n = pow_u64(z, n_dom);
    let z_h = z_n - one;
    let n_fr = Fr::from(n_dom);
    let n_inv = match Option::<Fr>::from(n_fr.invert()) {
        Some(x) => x,
        None => return Verdict::BadVerifier("domain size not invertible"),
    };
    let l1 = match Option::<Fr>::from((n_fr * (z - one)).invert()) {
        Some(inv) => z_h * inv,
        None => return Verdict::Reject("evaluation challenge is the first domain point"),
    };
    let mut pi_z = Fr::zero();
    for (row, val) in vf.pi_rows.iter().zip(pi.iter()) {
        if *val == Fr::zero() {
            continue;
        }
        // L_row(z) = omega^row (z^N - 1) / (N (z - omega^row))
        let w_row = pow_u64(omega, *row);
        match Option::<Fr>::from((z - w_row).invert()) {
            Some(inv) => pi_z += *val * w_row * z_h * n_inv * inv,
            None => return Verdict::Reject("evaluation challenge is a public-input domain point"),
        }
    }

    let (alpha, beta, gamma) = (ch.alpha, ch.beta, ch.gamma);
    let k1 = Fr::from(7u64);
    let k2 = Fr::from(13u64);
    let k3 = Fr::from(17u64);

    // constant part of the linearisation
    let r0 = pi_z - alpha.square() * l1 - alpha * (a + beta * s1 + gamma) * (b + beta * s2 + gamma) * (c + beta * s3 + gamma) * (d + gamma) * z_eval;

    let cm = &vf.comms;
    let pc = &pf.comms;
    let four = Fr::from(4u64);

    // [D]: the linearisation commitment, term by term
    let mut acc = G1Projective::identity();
    // arithmetic
    acc += mul(&cm[0], &(a * b * q_arith));
    acc += mul(&cm[1], &(a * q_arith));
    acc += mul(&cm[2], &(b * q_arith));
    acc += mul(&cm[3], &(c * q_arith));
    acc += mul(&cm[4], &(d * q_arith));
    acc += mul(&cm[5], &q_arith);
    // range
    {
        let k = ch.range_sep.square();
        let t = delta4(c - four * d) + k * delta4(b - four * c) + k.square() * delta4(a - four * b) + k.square() * k * delta4(d_w - four * a);
        acc += mul(&cm[8], &(t * ch.range_sep));
    }
    // logic
    {
        let k = ch.logic_sep.square();
        let qa = a_w - four * a;
        let qb = b_w - four * b;
        let qd = d_w - four * d;
        let t = delta4(qa)
            + k * delta4(qb)
            + k.square() * delta4(qd)
            + k.square() * k * (c - qa * qb)
            + k.square().square() * logic_fifth(qa, qb, c, qd, q_c);
        acc += mul(&cm[7], &(t * ch.logic_sep));
    }
    // fixed-base scalar multiplication
    {
        let k = ch.fixed_sep.square();
        let bit = d_w - d - d;
        let bit_cons = bit * (bit - one) * (bit + one);
        let y_alpha = bit.square() * (q_r - one) + one;
        let x_alpha = q_l * bit;
        let xy_cons = bit * q_c - c;
        let x_cons = (a_w + a_w * c * a * b * EDWARDS_D) - (x_alpha * b + y_alpha * a);
        let y_cons = (b_w - b_w * c * a * b * EDWARDS_D) - (x_alpha * a + y_alpha * b);
        let t = bit_cons + k * xy_cons + k.square() * x_cons + k.square() * k * y_cons;
        acc += mul(&cm[9], &(t * ch.fixed_sep));
    }
    // variable-base curve addition
    {
        let k = ch.var_sep.square();
        let (x1, y1, x2, y2, x3, y3, x1y2) = (a, b, c, d, a_w, b_w, d_w);
        let y1x2 = y1 * x2;
        let xy_cons = x1 * y2 - x1y2;
        let x_cons = (x1y2 + y1x2) - (x3 + x3 * EDWARDS_D * x1y2 * y1x2);
        let y_cons = (y1 * y2 + x1 * x2) - (y3 - y3 * EDWARDS_D * x1y2 * y1x2);
        let t = xy_cons + k * x_cons + k.square() * y_cons;
        acc += mul(&cm[10], &(t * ch.var_sep));
    }
    // permutation
    {
        let x = alpha * (a + beta * z + gamma) * (b + beta * k1 * z + gamma) * (c + beta * k2 * z + gamma) * (d + beta * k3 * z + gamma);
        acc += mul(&pc[4], &(x + alpha.square() * l1 + ch.u));
        let y = alpha * beta * z_eval * (a + beta * s1 + gamma) * (b + beta * s2 + gamma) * (c + beta * s3 + gamma);
        acc -= mul(&cm[14], &y);
    }
    // quotient
    {
        let t = mul(&pc[5], &one) + mul(&pc[6], &z_n) + mul(&pc[7], &z_n.square()) + mul(&pc[8], &(z_n.square() * z_n));
        acc -= t * z_h;
    }

    // batched openings
    let v = ch.v;
    let mut vp = v;
    let mut e_scalar = -r0;
    // at z: a b c d s1 s2 s3 (+ q_arith q_c q_l q_r from V2 on)
    let mut at_z: Vec<(&G1Affine, Fr)> = vec![(&pc[0], a), (&pc[1], b), (&pc[2], c), (&pc[3], d), (&cm[11], s1), (&cm[12], s2), (&cm[13], s3)];
    if version != Version::V1 {
        at_z.push((&cm[6], q_arith));
        at_z.push((&cm[5], q_c));
        at_z.push((&cm[1], q_l));
        at_z.push((&cm[2], q_r));
    }
    for (comm, eval) in &at_z {
        acc += mul(comm, &vp);
        e_scalar += vp * *eval;
        vp *= v;
    }
    // at z*omega: z (through u), then a b d with powers of v_w
    e_scalar += ch.u * z_eval;
    let mut wp = ch.v_w;
    for (comm, eval) in [(&pc[0], a_w), (&pc[1], b_w), (&pc[3], d_w)] {
        acc += mul(comm, &(ch.u * wp));
        e_scalar += ch.u * wp * eval;
        wp *= ch.v_w;
    }
    acc -= mul(&vf.g, &e_scalar);

    // e(W_z + u W_zw, [x]_2) == e(z W_z + u z omega W_zw + F - E, [1]_2)
    let left = mul(&pc[9], &one) + mul(&pc[10], &ch.u);
    let right = mul(&pc[9], &z) + mul(&pc[10], &(ch.u * z * omega)) + acc;
    let lhs = pairing(&G1Affine::from(left), &vf.x_h);
    let rhs = pairing(&G1Affine::from(right), &vf.h);
    LAST_PRODUCT.with(|c| c.set(Some((lhs, rhs))));
    if lhs == rhs {
        Verdict::Accept
    } else {
        Verdict::Reject("pairing equation")
    }
}

thread_local! {
    static LAST_PRODUCT: std::cell::Cell<Option<(dusk_bls12_381::Gt, dusk_bls12_381::Gt)>> = const { std::cell::Cell::new(None) };
}

/// The two sides e(left, [x]_2), e(right, [1]_2) of the last evaluation of the equation on this
/// thread (None if the last call was rejected before the equation was reached).
pub fn take_last_equation() -> Option<(dusk_bls12_381::Gt, dusk_bls12_381::Gt)> {
    LAST_PRODUCT.with(|c| c.take())
}

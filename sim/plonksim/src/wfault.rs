//! Witness-memory faults of a faulty / Byzantine prover host (S9): the value
//! being stored at allocation instant `k` is corrupted; everything computed
//! afterwards proceeds honestly from the corrupted value.

use std::cell::RefCell;

use dusk_bls12_381::BlsScalar;
use dusk_bytes::Serializable;

use crate::prng::Rng;

type Sc = BlsScalar;

#[derive(Clone, Debug, PartialEq)]
pub enum WFault {
    BitFlip(u8),
    AddOne,
    SubOne,
    Double,
    Negate,
    SetZero,
    SetOne,
    SetMinusOne,
    SetTwo,
    SetPow2(u8),
    SetPow2Minus1(u8),
    /// the value of the witness allocated just before (a stale copy)
    Stale,
    Random(Sc),
    /// order of the JubJub prime-order subgroup and its predecessor
    SetRJub,
    SetRJubMinus1,
    /// read the three values stored just before as (x1, y1, x2) and store y2 such that
    /// d x1 x2 y1 y2 = +1 / -1: a pole of the twisted-Edwards addition law (the host-side sum of
    /// the two "points" has a zero denominator)
    Pole(bool),
}

impl WFault {
    pub fn kind(&self) -> &'static str {
        match self {
            WFault::BitFlip(_) => "witness.bitflip",
            WFault::AddOne => "witness.plus_one",
            WFault::SubOne => "witness.minus_one",
            WFault::Double => "witness.double",
            WFault::Negate => "witness.negate",
            WFault::SetZero => "witness.set_zero",
            WFault::SetOne => "witness.set_one",
            WFault::SetMinusOne => "witness.set_minus_one",
            WFault::SetTwo => "witness.set_two",
            WFault::SetPow2(_) => "witness.set_pow2",
            WFault::SetPow2Minus1(_) => "witness.set_pow2_minus_1",
            WFault::Stale => "witness.stale_copy",
            WFault::Random(_) => "witness.random",
            WFault::SetRJub => "witness.set_r_jubjub",
            WFault::SetRJubMinus1 => "witness.set_r_jubjub_minus_1",
            WFault::Pole(_) => "witness.addition_law_pole",
        }
    }
}

fn r_jubjub() -> Sc {
    // -1 in the JubJub scalar field, as an integer, plus one
    crate::program::jub_to_bls(&(-dusk_jubjub::JubJubScalar::one())) + Sc::one()
}

pub fn apply(f: &WFault, v: Sc, prevs: &[Sc; 3]) -> Sc {
    let prev = prevs[0];
    match f {
        WFault::BitFlip(b) => {
            let mut bytes = v.to_bytes();
            let b = *b as usize % 255;
            bytes[b / 8] ^= 1 << (b % 8);
            // a flip may leave the canonical range: reduce
            let mut wide = [0u8; 64];
            wide[..32].copy_from_slice(&bytes);
            Sc::from_bytes_wide(&wide)
        }
        WFault::AddOne => v + Sc::one(),
        WFault::SubOne => v - Sc::one(),
        WFault::Double => v + v,
        WFault::Negate => -v,
        WFault::SetZero => Sc::zero(),
        WFault::SetOne => Sc::one(),
        WFault::SetMinusOne => -Sc::one(),
        WFault::SetTwo => Sc::from(2u64),
        WFault::SetPow2(k) => Sc::pow_of_2(*k as u64 % 255),
        WFault::SetPow2Minus1(k) => Sc::pow_of_2(*k as u64 % 255) - Sc::one(),
        WFault::Stale => prev,
        WFault::Random(r) => *r,
        WFault::SetRJub => r_jubjub(),
        WFault::SetRJubMinus1 => r_jubjub() - Sc::one(),
        WFault::Pole(plus) => {
            let (x2, y1, x1) = (prevs[0], prevs[1], prevs[2]);
            let den = dusk_jubjub::EDWARDS_D * x1 * y1 * x2;
            match Option::<Sc>::from(den.invert()) {
                Some(inv) => {
                    if *plus {
                        inv
                    } else {
                        -inv
                    }
                }
                None => v,
            }
        }
    }
}

/// Bit positions: uniform, or one of the widths the gadget menu uses (2^w and 2^w - 1 are the
/// boundary values of a width-w gadget: first value out of range, all-ones mask).
fn edgy_bits(rng: &mut Rng) -> u8 {
    if rng.chance(1, 2) {
        rng.below(255) as u8
    } else {
        *rng.pick(&[1u8, 2, 3, 4, 5, 6, 7, 8, 9, 10, 12, 14, 15, 16, 17, 24, 31, 32, 33, 48, 63, 64, 65, 96, 127, 128, 129, 160, 200, 250, 251, 252, 253, 254])
    }
}

pub fn random(rng: &mut Rng) -> WFault {
    match rng.below(18) {
        16 | 17 => WFault::Pole(rng.chance(1, 2)),
        0 | 1 => WFault::BitFlip(rng.below(255) as u8),
        2 => WFault::AddOne,
        3 => WFault::SubOne,
        4 => WFault::Double,
        5 => WFault::Negate,
        6 => WFault::SetZero,
        7 => WFault::SetOne,
        8 => WFault::SetMinusOne,
        9 => WFault::SetTwo,
        10 => WFault::SetPow2(edgy_bits(rng)),
        11 => WFault::SetPow2Minus1(edgy_bits(rng)),
        12 => WFault::Stale,
        13 => WFault::Random(rng.scalar()),
        14 => WFault::SetRJub,
        _ => WFault::SetRJubMinus1,
    }
}

/// The fixed set of eight corruption kinds used when every allocation instant
/// of a small program is enumerated.
pub fn enumeration_kinds() -> Vec<WFault> {
    vec![WFault::BitFlip(0), WFault::AddOne, WFault::Double, WFault::Negate, WFault::SetZero, WFault::SetOne, WFault::Stale, WFault::SetPow2(64), WFault::Pole(true), WFault::Pole(false)]
}

#[derive(Clone, Debug, Default)]
pub struct Fired {
    pub fired: bool,
    pub changed: bool,
    pub allocations: usize,
}

thread_local! {
    static FIRED: RefCell<Fired> = RefCell::new(Fired::default());
}

/// Arm the fault for the next synthesis on this thread.
pub fn arm(k: usize, f: WFault) {
    FIRED.with(|x| *x.borrow_mut() = Fired::default());
    let mut prevs = [Sc::zero(); 3];
    dusk_plonk::verif::set_witness_fault(Some(Box::new(move |index, value| {
        let out = if index == k {
            let nv = apply(&f, value, &prevs);
            FIRED.with(|x| {
                let mut x = x.borrow_mut();
                x.fired = true;
                x.changed = nv != value;
            });
            nv
        } else {
            value
        };
        FIRED.with(|x| x.borrow_mut().allocations = index + 1);
        prevs = [out, prevs[0], prevs[1]];
        out
    })));
}

/// A hook that only counts allocations.
pub fn arm_counter() {
    arm(usize::MAX, WFault::SetZero);
}

pub fn disarm() -> Fired {
    dusk_plonk::verif::set_witness_fault(None);
    FIRED.with(|x| x.borrow().clone())
}

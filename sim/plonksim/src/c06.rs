//! C06 — zero-knowledge masking: every opened polynomial is freshly blinded.
//!
//! The RNG seam (S3).  Monitored: the scripted RNG's call log during `prove`
//! (exactly 14 draws of 64 bytes, none during circuit synthesis).
//! Single-draw substitution: for each draw j the proof is recomputed with
//! draw j replaced by draw + D; the protocol fixes which proof element may
//! move first, and its difference must be D x [mask slot] computed from SRS
//! points (RM-mask): a wire slot moves exactly one wire commitment by
//! D[X^(n+i) - X^i] (i = 0, 1), a z slot leaves the wire commitments alone and
//! moves z_comm (i = 0, 1, 2), a quotient slot leaves wire and z commitments
//! alone and moves two adjacent share commitments by +D[X^n] and -D[1].  The
//! map draw -> slot must be a bijection onto the 14 slots (the draw *order* is
//! not prescribed).  Absolute check of the openings: with that bijection, the
//! witness snapshot and the challenges re-derived by the reference transcript,
//! every wire / z evaluation equals the unmasked value plus the prescribed
//! mask.  Different randomness: two proofs of one witness under scripts that
//! differ in every draw share no commitment and no wire / z evaluation.

use dusk_bls12_381::{BlsScalar, G1Affine, G1Projective};
use dusk_bytes::Serializable;
use dusk_plonk::prelude::*;

use crate::deploy::{self, proof_bytes, Route};
use crate::framework::{RunCtx, Violation};
use crate::json::J;
use crate::program::ProgCircuit;
use crate::rm_verify::{self, domain_for, pow_u64, RefProof, RefVerifier, Version};
use crate::scenario::{gen_scenario, pick_class, scenario_sig, ScenCfg};
use crate::seams::{RngCall, ScriptedRng};

type Fr = BlsScalar;

#[derive(Clone, Copy, Debug, PartialEq, Eq, PartialOrd, Ord)]
pub enum Slot {
    /// (wire 0..4 = a b c d, i): coefficient of X^(n+i) - X^i
    Wire(usize, usize),
    /// permutation polynomial, i in 0..3
    Z(usize),
    /// quotient shares: 0 = between low and mid, 1 = mid/high, 2 = high/fourth
    Quotient(usize),
}

pub fn all_slots() -> Vec<Slot> {
    let mut v = Vec::new();
    for w in 0..4 {
        for i in 0..2 {
            v.push(Slot::Wire(w, i));
        }
    }
    for i in 0..3 {
        v.push(Slot::Z(i));
    }
    for i in 0..3 {
        v.push(Slot::Quotient(i));
    }
    v
}

fn scalar_of_draw(d: &[u8]) -> Fr {
    let mut w = [0u8; 64];
    w.copy_from_slice(&d[..64]);
    Fr::from_bytes_wide(&w)
}

fn draw_of_scalar(s: &Fr) -> Vec<u8> {
    let mut w = vec![0u8; 64];
    w[..32].copy_from_slice(&s.to_bytes());
    w
}

pub fn srs_point(pp_bytes: &[u8], k: usize) -> Option<G1Affine> {
    let off = 240 + 48 * k;
    let mut b = [0u8; 48];
    b.copy_from_slice(pp_bytes.get(off..off + 48)?);
    G1Affine::from_bytes(&b).ok()
}

fn comm(p: &RefProof, i: usize) -> G1Projective {
    G1Projective::from(p.comms[i])
}

fn mask_point(pp: &[u8], n: usize, i: usize) -> Option<G1Projective> {
    Some(G1Projective::from(srs_point(pp, n + i)?) - G1Projective::from(srs_point(pp, i)?))
}

/// Classify which slot a substituted draw belongs to from the difference of two proofs.
fn classify(pp: &[u8], n: usize, delta: Fr, p0: &RefProof, pj: &RefProof) -> Result<Slot, String> {
    let moved: Vec<usize> = (0..4).filter(|w| p0.comms[*w] != pj.comms[*w]).collect();
    if moved.len() > 1 {
        return Err(format!("one substituted draw moved {} wire commitments", moved.len()));
    }
    if moved.len() == 1 {
        let w = moved[0];
        let diff = comm(pj, w) - comm(p0, w);
        for i in 0..2 {
            if diff == mask_point(pp, n, i).ok_or("srs")? * delta {
                return Ok(Slot::Wire(w, i));
            }
        }
        return Err(format!("wire commitment {} moved by something other than D[X^(n+i) - X^i], i in {{0,1}}", w));
    }
    if p0.comms[4] != pj.comms[4] {
        let diff = comm(pj, 4) - comm(p0, 4);
        for i in 0..3 {
            if diff == mask_point(pp, n, i).ok_or("srs")? * delta {
                return Ok(Slot::Z(i));
            }
        }
        return Err("z commitment moved by something other than D[X^(n+i) - X^i], i in {0,1,2}".into());
    }
    let tn = G1Projective::from(srs_point(pp, n).ok_or("srs")?) * delta;
    let t0 = G1Projective::from(srs_point(pp, 0).ok_or("srs")?) * delta;
    let d: Vec<G1Projective> = (5..9).map(|i| comm(pj, i) - comm(p0, i)).collect();
    let id = G1Projective::identity();
    for q in 0..3 {
        let mut ok = true;
        for (s, dd) in d.iter().enumerate() {
            let want = if s == q {
                tn
            } else if s == q + 1 {
                -t0
            } else {
                id
            };
            if *dd != want {
                ok = false;
            }
        }
        if ok {
            return Ok(Slot::Quotient(q));
        }
    }
    if d.iter().all(|x| *x == id) {
        return Err("the substituted draw moved no wire, z or quotient commitment (randomness not used for masking)".into());
    }
    Err("quotient share commitments moved by something other than +D[X^n] / -D[1] on adjacent shares".into())
}

/// Barycentric evaluation of a column over the size-n domain at x (x outside the domain).
fn eval_column(col: &[Fr], n: u64, omega: Fr, x: Fr) -> Fr {
    let xn = pow_u64(x, n) - Fr::one();
    let n_inv = Option::<Fr>::from(Fr::from(n).invert()).unwrap();
    let mut acc = Fr::zero();
    let mut wi = Fr::one();
    for v in col.iter() {
        if *v != Fr::zero() {
            let inv = Option::<Fr>::from((x - wi).invert()).unwrap_or(Fr::zero());
            acc += *v * wi * inv;
        }
        wi *= omega;
    }
    acc * xn * n_inv
}

pub fn run(ctx: &mut RunCtx) -> Result<(), Violation> {
    let mut w = ctx.stream("workload");
    let mut s = ctx.stream("sched");
    let class = if ctx.thorough { pick_class(&mut w, [10, 4, 2, 0]) } else { pick_class(&mut w, [12, 2, 0, 0]) };
    // a steady share of runs takes the large-domain code paths (domains of 2^10 and 2^11 rows)
    let big = if ctx.thorough { ctx.run % 12 } else { ctx.run % 48 };
    if big == 5 {
        crate::scenario::set_target_override(Some(1024 - w.usize(9)));
        ctx.st.probe("domain_2^10");
    } else if big == 11 && (ctx.thorough || ctx.run % 96 == 11) {
        crate::scenario::set_target_override(Some(2048 - w.usize(9)));
        ctx.st.probe("domain_2^11");
    } else if (ctx.thorough && ctx.run % 60 == 17) || (!ctx.thorough && ctx.run % 120 == 17) {
        // the proving-domain FFTs themselves take the parallel paths from 2^12 rows on
        crate::scenario::set_target_override(Some(4096 - w.usize(9)));
        ctx.st.probe("domain_2^12");
    }
    let sc = gen_scenario(ctx, &mut w, &ScenCfg { class, heavy: false, raw: true, exact_target: true, max_ops: 20 });
    let sig = scenario_sig(&sc);
    let pp = deploy::pp_with_degree(sc.degree);
    let env = ctx.env(&mut s);
    let (prover, verifier) = match deploy::compile(&pp, &sc.label, &sc.prog, Route::WithCircuit, &env) {
        Ok(k) => k,
        Err(_) => return Ok(()),
    };
    let vbytes = verifier.to_bytes();
    let vf = RefVerifier::parse(&vbytes).map_err(|e| Violation::new("I-mask", format!("reference cannot parse verifier: {}", e)))?;
    let n = sc.constraints.next_power_of_two();
    let (n_dom, omega) = domain_for(sc.constraints as u64).ok_or_else(|| Violation::new("I-mask", "no domain"))?;
    let pp_bytes = pp.to_var_bytes();
    let fail = |d: String| Violation::new("I-mask", d);

    // ---- base proof, draw log
    let mut rng0 = ScriptedRng::new(sc.rng_seed);
    let env_p = ctx.env(&mut s);
    crate::seams::reset_rng_calls();
    let (proof0, pi0) = match deploy::prove(&prover, &sc.prog, &sc.tape, &mut rng0, PlonkVersion::V3, &env_p) {
        Ok(x) => x,
        Err(_) => return Ok(()),
    };
    let calls_during_synthesis = crate::program::rng_calls_at_synthesis_end();
    ctx.st.steps += 1;
    ctx.st.eval(sig ^ 0x1, false);
    if rng0.log.iter().any(|c| *c != RngCall::Fill(64)) {
        // scalars are drawn through another RNG method than the one this harness substitutes:
        // not a verdict about masking, the harness has to be taught the new draw format
        eprintln!("HARNESS-ERROR C06: the prover draws randomness in a format other than fill_bytes(64) per scalar: {:?}", rng0.log);
        std::process::exit(2);
    }
    if rng0.log.len() != 14 {
        return Err(fail(format!("the prover drew {} masking scalars from the caller's RNG instead of 14", rng0.log.len())));
    }
    if calls_during_synthesis != 0 {
        return Err(fail(format!("{} RNG calls happened before circuit synthesis finished", calls_during_synthesis)));
    }
    let p0 = RefProof::parse(&proof_bytes(&proof0)).ok_or_else(|| fail("base proof does not parse".into()))?;
    let base_draws: Vec<Fr> = rng0.draws.iter().map(|d| scalar_of_draw(d)).collect();

    // ---- single-draw substitution
    let delta = {
        let mut d = w.scalar();
        if d == Fr::zero() {
            d = Fr::one();
        }
        d
    };
    let mut map: Vec<Slot> = Vec::new();
    ctx.hints.n_faults = 14;
    let keep = if ctx.spec.get("keepf").is_some() { Some(ctx.spec.list("keepf")) } else { None };
    for j in 0..14 {
        let env_j = ctx.env(&mut s);
        if let Some(kf) = &keep {
            if !kf.contains(&j) {
                continue;
            }
        }
        let sub = draw_of_scalar(&(base_draws[j] + delta));
        let mut rng = ScriptedRng::with_subst(sc.rng_seed, vec![(j, sub)]);
        let (pj, _) = match deploy::prove(&prover, &sc.prog, &sc.tape, &mut rng, PlonkVersion::V3, &env_j) {
            Ok(x) => x,
            Err(e) => return Err(fail(format!("proving with draw {} substituted failed: {:?}", j, e))),
        };
        ctx.st.steps += 1;
        ctx.st.fault("rng.single_draw_substitution");
        ctx.st.eval(sig ^ 0x100 ^ j as u64, true);
        let pj = RefProof::parse(&proof_bytes(&pj)).ok_or_else(|| fail("proof does not parse".into()))?;
        match classify(&pp_bytes, n, delta, &p0, &pj) {
            Ok(slot) => map.push(slot),
            Err(e) => {
                ctx.note("fault", J::s(format!("draw {} := draw + D", j)));
                return Err(fail(format!("substituting draw {}: {}", j, e)));
            }
        }
    }
    if keep.is_some() {
        return Ok(());
    }
    let mut sorted = map.clone();
    sorted.sort();
    sorted.dedup();
    if sorted.len() != 14 || sorted != { let mut a = all_slots(); a.sort(); a } {
        return Err(fail(format!("the 14 draws do not map one-to-one onto the 14 mask slots: {:?}", map)));
    }
    ctx.st.probe("draw_to_slot_bijections_established");

    // ---- absolute check of the openings
    let ch = rm_verify::challenges(&vf, &p0, &pi0, Version::V3);
    let z = ch.z;
    let zw = z * omega;
    let c = ProgCircuit { prog: sc.prog.clone(), tape: sc.tape.clone() };
    let snap = Composer::prove(sc.constraints, &c).map_err(|e| fail(format!("synthesis failed: {:?}", e)))?.verif_snapshot();
    let compiled = crate::program::snapshot_of(&sc.prog, &crate::program::Tape::default()).map_err(|e| fail(format!("{:?}", e)))?;
    let rows = snap.wires.len();
    let col = |wire: usize| -> Vec<Fr> {
        let mut v = vec![Fr::zero(); n];
        for r in 0..rows {
            v[r] = snap.witnesses[snap.wires[r][wire]];
        }
        v
    };
    let cols = [col(0), col(1), col(2), col(3)];
    let blinder = |slot: Slot| -> Fr { base_draws[map.iter().position(|s| *s == slot).unwrap()] };
    let zh = |x: Fr| pow_u64(x, n_dom) - Fr::one();
    // proof evaluation order: a b c d a_w b_w d_w ...
    let e = &p0.evals;
    let names = ["a", "b", "c", "d"];
    for wi in 0..4 {
        let want = eval_column(&cols[wi], n_dom, omega, z) + (blinder(Slot::Wire(wi, 0)) + blinder(Slot::Wire(wi, 1)) * z) * zh(z);
        ctx.st.eval(sig ^ 0x200 ^ wi as u64, true);
        if e[wi] != want {
            return Err(fail(format!("{}_eval is not the unmasked value plus (b0 + b1 z) Z_H(z)", names[wi])));
        }
    }
    for (ei, wi) in [(4usize, 0usize), (5, 1), (6, 3)] {
        let want = eval_column(&cols[wi], n_dom, omega, zw) + (blinder(Slot::Wire(wi, 0)) + blinder(Slot::Wire(wi, 1)) * zw) * zh(zw);
        ctx.st.eval(sig ^ 0x210 ^ wi as u64, true);
        if e[ei] != want {
            return Err(fail(format!("{}_w_eval is not the unmasked value plus (b0 + b1 zw) Z_H(zw)", names[wi])));
        }
    }
    // permutation accumulator from the compiled wiring
    {
        let ks = [Fr::one(), Fr::from(7u64), Fr::from(13u64), Fr::from(17u64)];
        // sigma: each position maps to the next position of its witness class (in order of appearance)
        let mut classes: Vec<Vec<(usize, usize)>> = vec![Vec::new(); compiled.witnesses.len()];
        for (r, ws) in compiled.wires.iter().enumerate() {
            for (wire, wt) in ws.iter().enumerate() {
                classes[*wt].push((r, wire));
            }
        }
        let mut sigma = vec![[Fr::zero(); 4]; n];
        let mut roots = Vec::with_capacity(n);
        let mut r = Fr::one();
        for _ in 0..n {
            roots.push(r);
            r *= omega;
        }
        for (row, s4) in sigma.iter_mut().enumerate() {
            for (wire, sv) in s4.iter_mut().enumerate() {
                *sv = ks[wire] * roots[row];
            }
        }
        for cl in &classes {
            for (k, (r, wire)) in cl.iter().enumerate() {
                let (nr, nw) = cl[(k + 1) % cl.len()];
                sigma[*r][*wire] = ks[nw] * roots[nr];
            }
        }
        let mut zcol = Vec::with_capacity(n);
        let mut acc = Fr::one();
        for i in 0..n {
            zcol.push(acc);
            let mut num = Fr::one();
            let mut den = Fr::one();
            for wire in 0..4 {
                let v = cols[wire][i];
                num *= v + ch.beta * ks[wire] * roots[i] + ch.gamma;
                den *= v + ch.beta * sigma[i][wire] + ch.gamma;
            }
            acc *= num * Option::<Fr>::from(den.invert()).unwrap_or(Fr::zero());
        }
        let want = eval_column(&zcol, n_dom, omega, zw)
            + (blinder(Slot::Z(0)) + blinder(Slot::Z(1)) * zw + blinder(Slot::Z(2)) * zw.square()) * zh(zw);
        ctx.st.eval(sig ^ 0x220, true);
        if e[14] != want {
            return Err(fail("z_eval is not the permutation accumulator at z*omega plus (b0 + b1 zw + b2 zw^2) Z_H(zw)".into()));
        }
    }
    ctx.st.probe("openings_checked_against_unmasked_values");

    // ---- a degenerate (zero) draw is still the caller's randomness: same script, same proof
    {
        let j = w.usize(14);
        let zeros = vec![0u8; 64];
        let env_a = ctx.env(&mut s);
        let env_b = ctx.env(&mut s);
        let mut r1 = ScriptedRng::with_subst(sc.rng_seed, vec![(j, zeros.clone())]);
        let mut r2 = ScriptedRng::with_subst(sc.rng_seed, vec![(j, zeros)]);
        let a = deploy::prove(&prover, &sc.prog, &sc.tape, &mut r1, PlonkVersion::V3, &env_a);
        let b = deploy::prove(&prover, &sc.prog, &sc.tape, &mut r2, PlonkVersion::V3, &env_b);
        ctx.st.fault("rng.zero_draw");
        ctx.st.eval(sig ^ 0x400 ^ j as u64, true);
        match (a, b) {
            (Ok((pa, _)), Ok((pb, _))) => {
                if proof_bytes(&pa) != proof_bytes(&pb) {
                    return Err(fail(format!("two proofs under the same RNG script (draw {} = 0) differ: randomness from somewhere else than the caller's RNG", j)));
                }
                if r1.log.len() != 14 || r2.log.len() != 14 {
                    return Err(fail(format!("with draw {} = 0 the prover drew {} / {} scalars instead of 14", j, r1.log.len(), r2.log.len())));
                }
            }
            (Err(_), Err(_)) => {}
            _ => return Err(fail(format!("proving under the same RNG script (draw {} = 0) succeeds once and fails once", j))),
        }
    }

    // ---- so is a draw that repeats the one before it (a stuck RNG): same script, same proof, 14 draws
    {
        let j = 1 + w.usize(13);
        let env_a = ctx.env(&mut s);
        let env_b = ctx.env(&mut s);
        let prev = draw_of_scalar(&base_draws[j - 1]);
        // the scripted RNG hands out the 64 substituted bytes verbatim: draw j-1 is re-encoded too, so
        // that the two blocks are byte-identical
        let subst = vec![(j - 1, prev.clone()), (j, prev)];
        let mut r1 = ScriptedRng::with_subst(sc.rng_seed, subst.clone());
        let mut r2 = ScriptedRng::with_subst(sc.rng_seed, subst);
        let a = deploy::prove(&prover, &sc.prog, &sc.tape, &mut r1, PlonkVersion::V3, &env_a);
        let b = deploy::prove(&prover, &sc.prog, &sc.tape, &mut r2, PlonkVersion::V3, &env_b);
        ctx.st.fault("rng.repeated_draw");
        ctx.st.eval(sig ^ 0x500 ^ j as u64, true);
        match (a, b) {
            (Ok((pa, _)), Ok((pb, _))) => {
                if proof_bytes(&pa) != proof_bytes(&pb) {
                    return Err(fail(format!("two proofs under the same RNG script (draw {} repeats draw {}) differ: randomness from somewhere else than the caller's RNG", j, j - 1)));
                }
                if r1.log.len() != 14 || r2.log.len() != 14 {
                    return Err(fail(format!("with draw {} repeating draw {} the prover drew {} / {} scalars instead of 14", j, j - 1, r1.log.len(), r2.log.len())));
                }
                // the repeated draw is used as drawn: the proof equals the one in which only draw j is
                // substituted by the (reduced) value of draw j-1
                let mut r3 = ScriptedRng::with_subst(sc.rng_seed, vec![(j, draw_of_scalar(&base_draws[j - 1]))]);
                let env_c = ctx.env(&mut s);
                if let Ok((pc, _)) = deploy::prove(&prover, &sc.prog, &sc.tape, &mut r3, PlonkVersion::V3, &env_c) {
                    if proof_bytes(&pc) != proof_bytes(&pa) {
                        return Err(fail(format!("a draw that repeats its predecessor (draw {}) is not used as drawn", j)));
                    }
                }
            }
            (Err(_), Err(_)) => {}
            _ => return Err(fail(format!("proving under the same RNG script (draw {} repeated) succeeds once and fails once", j))),
        }
    }

    // ---- different randomness: nothing is shared
    {
        let mut rng = ScriptedRng::new(sc.rng_seed ^ 0xFFFF_0000_FFFF);
        let env_q = ctx.env(&mut s);
        let (pq, _) = deploy::prove(&prover, &sc.prog, &sc.tape, &mut rng, PlonkVersion::V3, &env_q).map_err(|e| fail(format!("{:?}", e)))?;
        let pq = RefProof::parse(&proof_bytes(&pq)).ok_or_else(|| fail("proof does not parse".into()))?;
        ctx.st.eval(sig ^ 0x300, true);
        for i in 0..11 {
            if pq.comms[i] == p0.comms[i] {
                return Err(fail(format!("two proofs under different randomness share commitment #{}", i)));
            }
        }
        for i in [0usize, 1, 2, 3, 4, 5, 6, 14] {
            if pq.evals[i] == p0.evals[i] {
                return Err(fail(format!("two proofs under different randomness share evaluation #{}", i)));
            }
        }
    }
    ctx.st.sample(J::obj(vec![
        ("run", J::U(ctx.run)),
        ("program", J::s(crate::program::describe(&sc.prog))),
        ("constraints", J::U(sc.constraints as u64)),
        ("domain", J::U(n as u64)),
        ("draw_to_slot", J::A(map.iter().map(|s| J::s(format!("{:?}", s))).collect())),
    ]));
    Ok(())
}

//! C19 — FFT kernels equal their mathematical definitions, for every pool size
//! and schedule.  Claimed for the kernels that have a parallel path (FFT
//! family, Lagrange coefficients, barycentric evaluation) through the thin
//! `verif::kernels` wrappers.
//!
//! Oracles: (i) schedule independence — the result under a perturbed
//! environment equals the result under the canonical one; (ii) the definition
//! at sampled indices — fft(a)[i] = sum_j a_j w^(ij) (Horner in the harness),
//! the coset form with the field generator, ifft(fft(a)) = a,
//! sum_i L_i(tau) f(w^i) = f(tau), barycentric vs direct evaluation.

use dusk_bls12_381::{BlsScalar, GENERATOR};
use dusk_plonk::verif::kernels;

use crate::framework::{RunCtx, Violation};
use crate::json::J;
use crate::prng::{digest, Rng};
use crate::rm_verify::{domain_for, pow_u64};
use crate::seams::{guarded, under, EnvCfg};

type Fr = BlsScalar;

fn horner(coeffs: &[Fr], x: Fr) -> Fr {
    let mut acc = Fr::zero();
    for c in coeffs.iter().rev() {
        acc = acc * x + *c;
    }
    acc
}

fn bytes_of(v: &[Fr]) -> Vec<u8> {
    use dusk_bytes::Serializable;
    v.iter().flat_map(|s| s.to_bytes().to_vec()).collect()
}

fn gen_vector(rng: &mut Rng, len: usize) -> Vec<Fr> {
    let style = rng.below(7);
    let constant = rng.scalar();
    (0..len)
        .map(|i| match style {
            0 => rng.scalar(),
            1 => {
                if rng.chance(1, 2) {
                    Fr::zero()
                } else {
                    rng.scalar()
                }
            }
            2 => {
                // trailing zeros
                if i * 2 >= len {
                    Fr::zero()
                } else {
                    rng.scalar()
                }
            }
            3 => Fr::from(i as u64 + 1),
            // all entries equal
            6 => constant,
            4 => {
                if i == 0 {
                    Fr::one()
                } else {
                    Fr::zero()
                }
            }
            _ => rng.scalar_edgy(),
        })
        .collect()
}

fn sample_indices(rng: &mut Rng, n: usize, want: usize) -> Vec<usize> {
    if n <= want {
        return (0..n).collect();
    }
    let mut v: Vec<usize> = vec![0, 1, n - 1, n / 2];
    while v.len() < want {
        v.push(rng.usize(n));
    }
    v
}

fn trim(mut v: Vec<Fr>) -> Vec<Fr> {
    while v.last().map(|c| *c == Fr::zero()).unwrap_or(false) {
        v.pop();
    }
    v
}

fn poly_len(rng: &mut Rng) -> usize {
    match rng.below(12) {
        0 => 0,
        1 => 1,
        2 => 2 + rng.usize(15),
        3 => 17 + rng.usize(48),
        4 => 255 + rng.usize(3),
        5 => 1000 + rng.usize(100),
        6 => 1023 + rng.usize(3),
        7 => 2047 + rng.usize(3),
        8 => 1100 + rng.usize(1900),
        9 => 3000 + rng.usize(1200),
        _ => 1 + rng.usize(300),
    }
}

/// The serial kernels of the property (polynomial arithmetic, evaluation, division by a linear
/// factor, batch inversion) against schoolbook arithmetic, under the same seeded pools and
/// schedules as the FFT family: they have no parallel path today, so this is also the guard
/// against one being introduced (any such path is immediately under the schedule seam).
fn run_poly(ctx: &mut RunCtx) -> Result<(), Violation> {
    let mut w = ctx.stream("workload");
    let mut s = ctx.stream("sched");
    let la = poly_len(&mut w);
    let lb = if w.chance(1, 4) { la } else { poly_len(&mut w) };
    let a = gen_vector(&mut w, la);
    let b = gen_vector(&mut w, lb);
    let sc = match w.below(5) {
        0 => Fr::zero(),
        1 => Fr::one(),
        2 => -Fr::one(),
        _ => w.scalar(),
    };
    let z = if w.chance(1, 6) { Fr::zero() } else { w.scalar() };
    let canon = EnvCfg::canonical();
    let envs: Vec<EnvCfg> = (0..3).map(|_| ctx.env(&mut s)).collect();
    ctx.note("kernel_family", J::s("polynomial arithmetic / batch inversion"));
    ctx.note("lengths", J::s(format!("{} {}", la, lb)));
    let sig = digest(&bytes_of(&a)) ^ digest(&bytes_of(&b)).rotate_left(17) ^ 0x9017;
    let (ta, tb) = (trim(a.clone()), trim(b.clone()));
    let at = |v: &[Fr], i: usize| v.get(i).copied().unwrap_or(Fr::zero());
    // --- expected values by schoolbook arithmetic
    let m = ta.len().max(tb.len());
    let exp_add = trim((0..m).map(|i| at(&ta, i) + at(&tb, i)).collect());
    let exp_sub = trim((0..m).map(|i| at(&ta, i) - at(&tb, i)).collect());
    let exp_axpy = trim((0..m).map(|i| at(&ta, i) + sc * at(&tb, i)).collect());
    let exp_scale = trim(ta.iter().map(|c| *c * sc).collect());
    let exp_mul: Option<Vec<Fr>> = if ta.is_empty() || tb.is_empty() {
        Some(Vec::new())
    } else if ta.len() * tb.len() <= 1 << 14 {
        let mut r = vec![Fr::zero(); ta.len() + tb.len() - 1];
        for (i, x) in ta.iter().enumerate() {
            for (j, y) in tb.iter().enumerate() {
                r[i + j] += *x * *y;
            }
        }
        Some(trim(r))
    } else {
        None
    };
    // synthetic division of a by (X - z): q_{k-1} = a_k + z q_k
    let exp_ruffini = {
        let mut q = vec![Fr::zero(); ta.len().saturating_sub(1)];
        let mut carry = Fr::zero();
        for k in (1..ta.len()).rev() {
            carry = ta[k] + z * carry;
            q[k - 1] = carry;
        }
        trim(q)
    };
    // a root of unity of the domain the operand would be interpolated on
    let root = {
        let n = la.max(1).next_power_of_two() as u64;
        match domain_for(n) {
            Some((_, omega)) => pow_u64(omega, w.below(n)),
            None => Fr::one(),
        }
    };
    // b (X - z), by schoolbook arithmetic
    let exact_dividend: Vec<Fr> = {
        let mut r = vec![Fr::zero(); tb.len() + 1];
        for (i, c) in tb.iter().enumerate() {
            r[i + 1] += *c;
            r[i] -= z * *c;
        }
        if tb.is_empty() {
            Vec::new()
        } else {
            r
        }
    };
    let run_all = |env: &EnvCfg| -> Result<Vec<Vec<Fr>>, String> {
        guarded(|| {
            under(env, || {
                let mut inv = a.clone();
                kernels::batch_inversion(&mut inv);
                vec![
                    kernels::poly_add(&a, &b),
                    kernels::poly_sub(&a, &b),
                    kernels::poly_add_assign_scaled(&a, sc, &b),
                    kernels::poly_scale(&a, &sc),
                    kernels::poly_mul(&a, &b),
                    kernels::poly_ruffini(&a, z),
                    vec![kernels::poly_evaluate(&a, &z), kernels::poly_evaluate(&a, &Fr::one()), kernels::poly_evaluate(&b, &Fr::zero()), kernels::poly_evaluate(&a, &root)],
                    inv,
                    // exact division: (q (X - z)) / (X - z) = q
                    kernels::poly_ruffini(&exact_dividend, z),
                ]
            })
        })
    };
    let names = ["polynomial addition", "polynomial subtraction", "scaled addition (p += s*q)", "scalar multiplication", "polynomial multiplication", "division by a linear factor (ruffini)", "evaluation", "batch inversion", "exact division by a linear factor"];
    let out = run_all(&canon).map_err(|p| Violation::new("panic", format!("polynomial kernel panicked (lengths {} {}): {}", la, lb, p)))?;
    ctx.st.steps += 8;
    for env in &envs {
        let o2 = run_all(env).map_err(|p| Violation::new("panic", format!("polynomial kernel panicked under [{}]: {}", env.describe(), p)))?;
        ctx.st.steps += 8;
        for k in 0..out.len() {
            ctx.st.eval(sig ^ (k as u64) << 8 ^ digest(env.describe().as_bytes()), !env.is_canonical());
            if o2[k] != out[k] {
                return Err(Violation::new("I-determ", format!("{} (lengths {} {}) differs between the canonical schedule and [{}]", names[k], la, lb, env.describe())));
            }
        }
    }
    let def = |k: usize, what: &str| Violation::new("I-definition", format!("{} differs from schoolbook arithmetic (lengths {} {}): {}", names[k], la, lb, what));
    for (k, exp) in [(0usize, &exp_add), (1, &exp_sub), (2, &exp_axpy), (3, &exp_scale), (5, &exp_ruffini)] {
        ctx.st.eval(sig ^ 0xd0 ^ k as u64, true);
        if trim(out[k].clone()) != *exp {
            return Err(def(k, "coefficients differ"));
        }
    }
    // multiplication: exact for small operands, at three random points (and by degree) otherwise
    {
        ctx.st.eval(sig ^ 0xd4, true);
        let got = trim(out[4].clone());
        match &exp_mul {
            Some(e) => {
                if got != *e {
                    return Err(def(4, "coefficients differ"));
                }
            }
            None => {
                ctx.st.probe("poly_mul_checked_at_random_points");
                if got.len() != ta.len() + tb.len() - 1 {
                    return Err(def(4, "degree differs"));
                }
                for _ in 0..3 {
                    let x = w.scalar();
                    if horner(&got, x) != horner(&ta, x) * horner(&tb, x) {
                        return Err(def(4, "value at a random point differs from the product of the values"));
                    }
                }
            }
        }
        if ta.len() + tb.len() > 2048 {
            ctx.st.probe("poly_mul_domain_ge_2^12");
        }
    }
    // evaluation
    ctx.st.eval(sig ^ 0xd6, true);
    if out[6] != vec![horner(&ta, z), horner(&ta, Fr::one()), at(&tb, 0), horner(&ta, root)] {
        return Err(def(6, "value differs from Horner evaluation (at a random point, 1, 0 or a root of unity)"));
    }
    ctx.st.eval(sig ^ 0xd8, true);
    if trim(out[8].clone()) != tb {
        return Err(def(8, "(q (X - z)) / (X - z) is not q"));
    }
    // batch inversion: every non-zero entry inverted, zeros left
    ctx.st.eval(sig ^ 0xd7, true);
    if out[7].len() != a.len() {
        return Err(def(7, "length changed"));
    }
    for (i, (x, y)) in a.iter().zip(out[7].iter()).enumerate() {
        let ok = if *x == Fr::zero() { *y == Fr::zero() } else { *x * *y == Fr::one() };
        if !ok {
            return Err(def(7, &format!("entry {} of {} is not the inverse (or a zero was not left alone)", i, a.len())));
        }
    }
    if a.len() >= 1024 {
        ctx.st.probe("batch_inversion_len_ge_1024");
    }
    ctx.st.sample(J::obj(vec![
        ("run", J::U(ctx.run)),
        ("kernels", J::s("poly add/sub/axpy/scale/mul/ruffini/evaluate, batch_inversion")),
        ("lengths", J::s(format!("{} {}", la, lb))),
        ("environments", J::A(envs.iter().map(|e| J::s(e.describe())).collect())),
    ]));
    Ok(())
}

pub fn run(ctx: &mut RunCtx) -> Result<(), Violation> {
    if ctx.spec.get("k").is_none() && ctx.run % 3 == 2 {
        return run_poly(ctx);
    }
    let mut w = ctx.stream("workload");
    let mut s = ctx.stream("sched");
    // domain size 2^k, both sides of the 2^12 parallel threshold
    let k = if let Some(k) = ctx.spec.u64("k") {
        k
    } else {
        match w.below(10) {
            0..=3 => w.below(8),
            4..=5 => 8 + w.below(4),
            6..=8 => 12 + w.below(2),
            _ => 14,
        }
    };
    let n = 1usize << k;
    let (n_dom, omega) = domain_for(n as u64).ok_or_else(|| Violation::new("harness", "no domain"))?;
    assert_eq!(n_dom as usize, n);
    // input length: equal, shorter, much shorter
    let len = match w.below(6) {
        0 => n,
        1 => n - w.usize(n.min(8)),
        2 => 1 + w.usize(n),
        // longer than the domain (the definition then is evaluation of the whole polynomial on the subgroup)
        3 if k <= 12 => n + 1 + w.usize(n.min(64)),
        _ => n,
    }
    .max(1);
    let longer = len > n;
    if longer {
        ctx.st.probe("input_longer_than_domain");
    }
    let a = gen_vector(&mut w, len);
    let canon = EnvCfg::canonical();
    let n_env = if k >= 12 { 3 } else { 4 };
    let envs: Vec<EnvCfg> = (0..n_env).map(|_| ctx.env(&mut s)).collect();
    ctx.note("domain_log2", J::U(k));
    ctx.note("input_len", J::U(len as u64));
    let sig = digest(&bytes_of(&a)) ^ k << 56;
    let fail_def = |what: &str, i: usize| Violation::new("I-definition", format!("{} of a length-{} vector on the 2^{} domain differs from its definition at index {}", what, len, k, i));
    let fail_sched = |what: &str, env: &EnvCfg| Violation::new("I-determ", format!("{} on the 2^{} domain (input length {}) differs between the canonical schedule and [{}]", what, k, len, env.describe()));
    let call = |env: &EnvCfg, which: usize, v: &[Fr]| -> Result<Vec<Fr>, Violation> {
        let r = guarded(|| {
            under(env, || match which {
                0 => kernels::fft(n, v),
                1 => kernels::ifft(n, v),
                2 => kernels::coset_fft(n, v),
                _ => kernels::coset_ifft(n, v),
            })
        });
        match r {
            Ok(Ok(x)) => Ok(x),
            Ok(Err(e)) => Err(Violation::new("I-definition", format!("kernel {} failed: {:?}", which, e))),
            Err(p) => Err(Violation::new("panic", format!("kernel {} panicked under [{}]: {}", which, env.describe(), p))),
        }
    };
    let names = ["fft", "ifft", "coset_fft", "coset_ifft"];
    let mut canon_out: Vec<Vec<Fr>> = Vec::new();
    for which in 0..4 {
        let out = call(&canon, which, &a)?;
        ctx.st.steps += 1;
        ctx.st.log_bytes(&bytes_of(&out[..out.len().min(8)]));
        if out.len() != n {
            return Err(Violation::new("I-definition", format!("{} returned {} values for a domain of {}", names[which], out.len(), n)));
        }
        // (i) schedule independence
        for env in &envs {
            let o2 = call(env, which, &a)?;
            ctx.st.steps += 1;
            ctx.st.eval(sig ^ (which as u64) << 8 ^ digest(env.describe().as_bytes()), !env.is_canonical());
            if o2 != out {
                return Err(fail_sched(names[which], env));
            }
        }
        canon_out.push(out);
    }
    if n >= 4096 {
        ctx.st.probe("domain_ge_2^12");
        if envs.iter().any(|e| e.threads >= 4) {
            ctx.st.probe("domain_ge_2^12_with_pool_ge_4 (final-stage parallel butterflies)");
        }
    }
    // (ii) definitions at sampled indices
    let idx = sample_indices(&mut w, n, if n <= 64 { 64 } else { 12 });
    let g = GENERATOR;
    let n_inv = Option::<Fr>::from(Fr::from(n as u64).invert()).unwrap();
    let g_inv = Option::<Fr>::from(g.invert()).unwrap();
    let omega_inv = Option::<Fr>::from(omega.invert()).unwrap();
    for &i in &idx {
        let wi = pow_u64(omega, i as u64);
        ctx.st.eval(sig ^ 0xdef ^ (i as u64) << 20, true);
        let wi_inv = pow_u64(omega_inv, i as u64);
        let trunc = &a[..a.len().min(n)];
        // (kernel output, definition on the whole input, value on the input truncated to the domain size)
        let checks = [
            ("fft", canon_out[0][i], horner(&a, wi), horner(trunc, wi)),
            ("coset_fft", canon_out[2][i], horner(&a, g * wi), horner(trunc, g * wi)),
            // ifft(a)[i] = (1/n) sum_j a_j w^(-ij)
            ("ifft", canon_out[1][i], horner(&a, wi_inv) * n_inv, horner(trunc, wi_inv) * n_inv),
            // coset_ifft(a)[i] = g^(-i) * ifft(a)[i]
            ("coset_ifft", canon_out[3][i], horner(&a, wi_inv) * n_inv * pow_u64(g_inv, i as u64), horner(trunc, wi_inv) * n_inv * pow_u64(g_inv, i as u64)),
        ];
        for (name, got, def, on_truncated) in checks {
            if got == def {
                continue;
            }
            // interpolation of more values than the subgroup has points is not defined; only the
            // forward transforms have a definition for longer inputs
            if longer && name.ends_with("ifft") {
                continue;
            }
            if longer && got == on_truncated {
                ctx.st.finding(
                    "fft-input-longer-than-domain-is-truncated",
                    format!("{} of a length-{} vector on the 2^{} domain equals the transform of the first {} entries, not the evaluation of the whole polynomial on the subgroup (index {})", name, len, k, n, i),
                );
                continue;
            }
            return Err(fail_def(name, i));
        }
    }
    // mutually inverse
    if !longer {
        let env = &envs[0];
        let back = call(env, 1, &canon_out[0])?;
        let back2 = call(env, 3, &canon_out[2])?;
        ctx.st.steps += 2;
        let mut padded = a.clone();
        padded.resize(n, Fr::zero());
        ctx.st.eval(sig ^ 0x1f, true);
        if back != padded {
            return Err(Violation::new("I-definition", format!("ifft(fft(a)) != a on the 2^{} domain (len {}) under [{}]", k, len, env.describe())));
        }
        if back2 != padded {
            return Err(Violation::new("I-definition", format!("coset_ifft(coset_fft(a)) != a on the 2^{} domain (len {}) under [{}]", k, len, env.describe())));
        }
    }
    // Lagrange coefficients and barycentric evaluation (sizes up to 2^12 to keep the O(n) reference cheap)
    if k <= 12 && !longer {
        let inside = w.chance(1, 4);
        let tau = if inside { pow_u64(omega, w.below(n as u64)) } else { w.scalar() };
        let lc = guarded(|| under(&canon, || kernels::lagrange_coefficients(n, tau)));
        let lc = match lc {
            Ok(Ok(x)) => x,
            Ok(Err(e)) => return Err(Violation::new("I-definition", format!("lagrange_coefficients failed: {:?}", e))),
            Err(p) => return Err(Violation::new("panic", format!("lagrange_coefficients panicked: {}", p))),
        };
        for env in &envs {
            let l2 = guarded(|| under(env, || kernels::lagrange_coefficients(n, tau))).map_err(|p| Violation::new("panic", p))?.map_err(|e| Violation::new("I-definition", format!("{:?}", e)))?;
            ctx.st.eval(sig ^ 0x1a9 ^ digest(env.describe().as_bytes()), !env.is_canonical());
            if l2 != lc {
                return Err(fail_sched("evaluate_all_lagrange_coefficients", env));
            }
        }
        // sum_i L_i(tau) f(w^i) = f(tau) for f = the polynomial with coefficients a (degree < n)
        let evals = &canon_out[0];
        let mut acc = Fr::zero();
        for (l, e) in lc.iter().zip(evals.iter()) {
            acc += *l * *e;
        }
        ctx.st.eval(sig ^ 0x1aa, true);
        if inside {
            ctx.st.probe("lagrange_point_inside_domain");
        }
        if acc != horner(&a, tau) {
            return Err(Violation::new("I-definition", format!("sum_i L_i(tau) f(w^i) != f(tau) on the 2^{} domain (tau {} the domain)", k, if inside { "inside" } else { "outside" })));
        }
        // barycentric evaluation of the evaluation vector at a point outside the domain
        let z = w.scalar();
        let b0 = guarded(|| under(&canon, || kernels::barycentric_eval(n, evals, &z))).map_err(|p| Violation::new("panic", p))?.map_err(|e| Violation::new("I-definition", format!("{:?}", e)))?;
        for env in &envs {
            let b1 = guarded(|| under(env, || kernels::barycentric_eval(n, evals, &z))).map_err(|p| Violation::new("panic", p))?.map_err(|e| Violation::new("I-definition", format!("{:?}", e)))?;
            ctx.st.eval(sig ^ 0x1ab ^ digest(env.describe().as_bytes()), !env.is_canonical());
            if b1 != b0 {
                return Err(fail_sched("compute_barycentric_eval", env));
            }
        }
        if b0 != horner(&a, z) {
            return Err(Violation::new("I-definition", format!("barycentric evaluation != direct evaluation on the 2^{} domain", k)));
        }
        // ... and at a point of the domain, where the value is the stored evaluation itself
        if w.chance(1, 3) {
            let j = w.usize(n);
            let zj = pow_u64(omega, j as u64);
            let bj = guarded(|| under(&canon, || kernels::barycentric_eval(n, evals, &zj))).map_err(|p| Violation::new("panic", p))?.map_err(|e| Violation::new("I-definition", format!("{:?}", e)))?;
            ctx.st.probe("barycentric_point_inside_domain");
            if bj != evals[j] {
                if bj == Fr::zero() {
                    ctx.st.finding(
                        "barycentric-eval-at-domain-point-returns-zero",
                        format!("compute_barycentric_eval at the domain point w^{} of the 2^{} domain returns 0 instead of the evaluation stored for that point", j, k),
                    );
                } else {
                    return Err(Violation::new("I-definition", format!("barycentric evaluation at the domain point w^{} is neither f(w^{}) nor 0", j, j)));
                }
            }
        }
        // vanishing polynomial closed forms
        let zh = kernels::vanishing(n, &z).map_err(|e| Violation::new("I-definition", format!("{:?}", e)))?;
        if zh != pow_u64(z, n as u64) - Fr::one() {
            return Err(Violation::new("I-definition", "vanishing polynomial evaluation != z^n - 1"));
        }
        if k >= 1 {
            // any degree below the domain size, power of two or not (the prover key uses n on the 8n domain)
            let deg = if w.chance(1, 2) && k >= 3 { (n / 8) as u64 } else { 1 + w.below(n as u64 - 1) };
            let vc = kernels::vanishing_over_coset(n, deg).map_err(|e| Violation::new("I-definition", format!("{:?}", e)))?;
            for &i in idx.iter().take(8) {
                let x = g * pow_u64(omega, i as u64);
                if vc[i] != pow_u64(x, deg) - Fr::one() {
                    return Err(fail_def("vanishing polynomial over the coset", i));
                }
            }
        }
    }
    ctx.st.sample(J::obj(vec![
        ("run", J::U(ctx.run)),
        ("domain_log2", J::U(k)),
        ("input_len", J::U(len as u64)),
        ("environments", J::A(envs.iter().map(|e| J::s(e.describe())).collect())),
        ("indices_checked_against_definition", J::U(idx.len() as u64)),
    ]));
    Ok(())
}

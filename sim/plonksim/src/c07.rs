//! C07 — circuit shape is independent of witness values; generation is total.
//!
//! Faults are injected *during* synthesis: the witness-allocation hook corrupts
//! the value stored at allocation instant k (non-boolean bits, out-of-range
//! scalars, malformed coordinates arrive mid-synthesis), and hostile tapes
//! deliver corrupted proving requests (off-curve, small-order, zero-Z points,
//! arbitrary scalars).  Oracle I-shape: synthesis returns Err, or emits exactly
//! the gate list of the default (zero-tape) instance — selectors, wiring,
//! public-input rows, counts; it never panics (abort / hang: supervisor).

use dusk_bls12_381::BlsScalar;
use dusk_jubjub::{JubJubAffine, JubJubExtended, JubJubScalar, EDWARDS_D};
use dusk_plonk::prelude::*;
use ff::Field;

use crate::c05::snapshot_of;
use crate::framework::{progress_case, RunCtx, Violation};
use crate::json::J;
use crate::prng::{digest, Rng};
use crate::program::{slots, Slot, Tape, TapeVal};
use crate::rm_rows::same_shape;
use crate::scenario::{gen_scenario, pick_class, scenario_sig, ScenCfg, Scenario};
use crate::seams::guarded;
use crate::wfault::{self, WFault};

type Sc = BlsScalar;

/// A random point on the curve (not necessarily in the prime-order subgroup).
fn random_curve_point(rng: &mut Rng) -> JubJubAffine {
    loop {
        let u = rng.scalar();
        let u2 = u.square();
        let den = Sc::one() - EDWARDS_D * u2;
        let den_inv = match Option::<Sc>::from(den.invert()) {
            Some(x) => x,
            None => continue,
        };
        let v2 = (Sc::one() + u2) * den_inv;
        if let Some(v) = Option::<Sc>::from(v2.sqrt()) {
            return JubJubAffine::from_raw_unchecked(u, v);
        }
    }
}

pub fn hostile_point(rng: &mut Rng) -> (JubJubExtended, &'static str) {
    match rng.below(9) {
        0 => (JubJubExtended::from(JubJubAffine::from_raw_unchecked(rng.scalar(), rng.scalar())), "tape.point_off_curve"),
        1 => (JubJubExtended::from(JubJubAffine::from_raw_unchecked(Sc::zero(), Sc::zero())), "tape.point_0_0"),
        2 => {
            // zero Z: no affine point at all
            (JubJubExtended::from_raw_unchecked(rng.scalar(), rng.scalar(), Sc::zero(), rng.scalar(), rng.scalar()), "tape.point_zero_z")
        }
        3 => {
            // on the curve, outside the prime-order subgroup
            (JubJubExtended::from(random_curve_point(rng)), "tape.point_mixed_order")
        }
        4 => {
            // small order: [r]P for a random curve point
            let p = JubJubExtended::from(random_curve_point(rng));
            let t = p * (-JubJubScalar::one()) + p;
            (t, "tape.point_small_order")
        }
        5 => (JubJubExtended::from(JubJubAffine::from_raw_unchecked(Sc::zero(), -Sc::one())), "tape.point_order_2"),
        6 => {
            // honest affine point, inconsistent extended coordinates (T1*T2 != UV/Z)
            let p = crate::program::gen_mul(1 + rng.below(1000));
            (JubJubExtended::from_raw_unchecked(p.get_u(), p.get_v(), p.get_z(), rng.scalar(), rng.scalar()), "tape.point_inconsistent_t")
        }
        7 => {
            // honest point in a non-normalised representation (Z != 1)
            let p = JubJubAffine::from(crate::program::gen_mul(1 + rng.below(1000)));
            let z = rng.scalar();
            (JubJubExtended::from_raw_unchecked(p.get_u() * z, p.get_v() * z, z, p.get_u(), p.get_v() * z), "tape.point_scaled_z")
        }
        _ => (JubJubExtended::from(JubJubAffine::identity()), "tape.point_identity"),
    }
}

pub fn hostile_scalar(rng: &mut Rng) -> (Sc, &'static str) {
    let rj = crate::program::jub_to_bls(&(-JubJubScalar::one())) + Sc::one();
    match rng.below(10) {
        0 => (Sc::from(2u64), "tape.scalar_two_as_bit"),
        1 => (-Sc::one(), "tape.scalar_minus_one"),
        2 => (rj, "tape.scalar_r_jubjub"),
        3 => (rj - Sc::one(), "tape.scalar_r_jubjub_minus_1"),
        4 => {
            let k = rng.below(255);
            (Sc::pow_of_2(k), "tape.scalar_pow2")
        }
        5 => {
            let k = rng.below(255);
            (Sc::pow_of_2(k) - Sc::one(), "tape.scalar_pow2_minus_1")
        }
        6 => (Sc::zero(), "tape.scalar_zero"),
        7 => (Sc::pow_of_2(252), "tape.scalar_2^252"),
        _ => (rng.scalar(), "tape.scalar_random"),
    }
}

fn hostile_tape(sc: &Scenario, rng: &mut Rng) -> (Tape, Vec<&'static str>) {
    let sl = slots(&sc.prog);
    let mut t = sc.tape.clone();
    let mut kinds = Vec::new();
    if sl.is_empty() {
        return (t, kinds);
    }
    // two point inputs that sit on a pole of the addition law with respect to each other
    // (d x1 x2 y1 y2 = +-1: the host-side sum or difference has a zero denominator)
    let point_slots: Vec<usize> = (0..sl.len().min(t.0.len())).filter(|j| matches!(sl[*j], Slot::P)).collect();
    if point_slots.len() >= 2 && rng.chance(1, 3) {
        let a = point_slots[rng.usize(point_slots.len())];
        let mut b = point_slots[rng.usize(point_slots.len())];
        if a == b {
            b = *point_slots.iter().find(|j| **j != a).unwrap();
        }
        let (x1, y1, x2) = (rng.scalar(), rng.scalar(), rng.scalar());
        if let Some(inv) = Option::<Sc>::from((EDWARDS_D * x1 * y1 * x2).invert()) {
            let y2 = if rng.chance(1, 2) { inv } else { -inv };
            t.0[a] = TapeVal::P(JubJubExtended::from(JubJubAffine::from_raw_unchecked(x1, y1)));
            t.0[b] = TapeVal::P(JubJubExtended::from(JubJubAffine::from_raw_unchecked(x2, y2)));
            kinds.push("tape.point_pole_pair");
            if rng.chance(1, 2) {
                return (t, kinds);
            }
        }
    }
    let n_edits = 1 + rng.usize(3);
    for _ in 0..n_edits {
        let j = rng.usize(sl.len());
        match sl[j] {
            Slot::P => {
                let (p, k) = hostile_point(rng);
                if j < t.0.len() {
                    t.0[j] = TapeVal::P(p);
                    kinds.push(k);
                }
            }
            Slot::S(_) => {
                let (s, k) = hostile_scalar(rng);
                if j < t.0.len() {
                    t.0[j] = TapeVal::S(s);
                    kinds.push(k);
                }
            }
        }
    }
    (t, kinds)
}

pub fn run(ctx: &mut RunCtx) -> Result<(), Violation> {
    let mut w = ctx.stream("workload");
    let mut f = ctx.stream("faults");
    let class = pick_class(&mut w, [10, 5, 1, 0]);
    let heavy = w.chance(1, 2);
    let sc = gen_scenario(ctx, &mut w, &ScenCfg { class, heavy, raw: true, exact_target: false, max_ops: 24 });
    let sig = scenario_sig(&sc);
    let g0 = match guarded(|| snapshot_of(&sc, &Tape::default())) {
        Ok(Ok(s)) => s,
        Ok(Err(e)) => return Err(Violation::new("I-shape", format!("the default instance does not synthesise: {:?}", e))),
        Err(p) => return Err(Violation::new("panic", format!("synthesis of the default instance panicked: {}", p))),
    };
    // honest tape: same shape as the default instance
    match guarded(|| snapshot_of(&sc, &sc.tape)) {
        Ok(Ok(s)) => {
            ctx.st.eval(sig ^ 1, false);
            if let Err(e) = same_shape(&g0, &s) {
                return Err(Violation::new("I-shape", format!("the honest instance has another shape than the default instance: {}", e)));
            }
        }
        Ok(Err(e)) => return Err(Violation::new("I-shape", format!("the honest instance does not synthesise: {:?}", e))),
        Err(p) => return Err(Violation::new("panic", format!("synthesis of the honest instance panicked: {}", p))),
    }
    let n_w = g0.witnesses.len();
    // fault list: (description, kind, armed fault or hostile tape)
    enum Case {
        Alloc(usize, WFault),
        TapeEdit(Tape, Vec<&'static str>),
    }
    let mut cases: Vec<Case> = Vec::new();
    let enumerate = n_w <= 400 && (ctx.thorough || ctx.run % 4 == 0);
    if enumerate {
        ctx.st.probe("programs_with_every_allocation_instant_enumerated");
        for k in 0..n_w {
            cases.push(Case::Alloc(k, wfault::random(&mut f)));
        }
    }
    let n_rand = if ctx.thorough { 120 } else { 60 };
    for _ in 0..n_rand {
        if f.chance(2, 3) {
            cases.push(Case::Alloc(f.usize(n_w.max(1)), wfault::random(&mut f)));
        } else {
            let (t, kinds) = hostile_tape(&sc, &mut f);
            if !kinds.is_empty() {
                cases.push(Case::TapeEdit(t, kinds));
            }
        }
    }
    ctx.hints.n_faults = cases.len();
    let keep = if ctx.spec.get("keepf").is_some() { Some(ctx.spec.list("keepf")) } else { None };
    let mut errs = 0u64;
    for (k, case) in cases.iter().enumerate() {
        if let Some(kf) = &keep {
            if !kf.contains(&k) {
                continue;
            }
        }
        let (desc, res) = match case {
            Case::Alloc(at, wf) => {
                let desc = format!("allocation instant {} of {}: {:?}", at, n_w, wf);
                progress_case(ctx.prop, ctx.run, k, &desc);
                ctx.st.fault(wf.kind());
                wfault::arm(*at, wf.clone());
                let r = guarded(|| snapshot_of(&sc, &sc.tape));
                wfault::disarm();
                (desc, r)
            }
            Case::TapeEdit(t, kinds) => {
                let desc = format!("hostile tape: {:?}", kinds);
                progress_case(ctx.prop, ctx.run, k, &desc);
                for kd in kinds {
                    ctx.st.fault(kd);
                }
                (desc, guarded(|| snapshot_of(&sc, t)))
            }
        };
        ctx.st.steps += 1;
        ctx.st.eval(sig ^ digest(desc.as_bytes()), true);
        ctx.note("fault", J::s(desc.clone()));
        match res {
            Err(p) => return Err(Violation::new("panic", format!("circuit synthesis panicked ({}): {}", desc, p))),
            Ok(Err(_)) => {
                errs += 1;
                ctx.st.probe("synthesis_returned_error");
            }
            Ok(Ok(s)) => {
                if let Err(e) = same_shape(&g0, &s) {
                    return Err(Violation::new("I-shape", format!("the emitted shape depends on witness values ({}): {}", desc, e)));
                }
            }
        }
    }
    ctx.st.sample(J::obj(vec![
        ("run", J::U(ctx.run)),
        ("program", J::s(crate::program::describe(&sc.prog))),
        ("rows", J::U(g0.selectors.len() as u64)),
        ("witnesses", J::U(n_w as u64)),
        ("cases", J::U(cases.len() as u64)),
        ("synthesis_errors", J::U(errs)),
        ("every_instant_enumerated", J::Bool(enumerate)),
    ]));
    let _ = Composer::initialized;
    Ok(())
}

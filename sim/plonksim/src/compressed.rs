//! Structure-aware view of a compressed circuit description: a mirror of the
//! MessagePack layout (same field order and types as the library's private
//! struct, decoded with the same msgpacker version) inside a deflate stream,
//! plus the hostile edits used by C15 and C17.

use msgpacker::{MsgPacker, Packable, Unpackable};

use crate::prng::Rng;

#[derive(Debug, Default, Clone, Copy, PartialEq, Eq, MsgPacker)]
pub struct CConstraint {
    pub polynomial: usize,
    pub a: usize,
    pub b: usize,
    pub c: usize,
    pub d: usize,
}

// The library's struct has eleven named usize fields; MessagePack packs them
// back to back, which is what eleven array-free usize values look like.  A
// fixed-size array would get a header, so spell the fields out.
#[derive(Debug, Default, Clone, Copy, PartialEq, Eq, MsgPacker)]
pub struct CPoly {
    pub q_m: usize,
    pub q_l: usize,
    pub q_r: usize,
    pub q_o: usize,
    pub q_f: usize,
    pub q_c: usize,
    pub q_arith: usize,
    pub q_range: usize,
    pub q_logic: usize,
    pub q_fixed_group_add: usize,
    pub q_variable_group_add: usize,
}

#[derive(Debug, Clone, PartialEq, Eq, MsgPacker)]
pub struct CCircuit {
    pub hades_optimization: bool,
    pub public_inputs: Vec<usize>,
    pub witnesses: usize,
    pub scalars: Vec<[u8; 32]>,
    pub polynomials: Vec<CPoly>,
    pub constraints: Vec<CConstraint>,
}

pub fn inflate(bytes: &[u8]) -> Option<Vec<u8>> {
    miniz_oxide::inflate::decompress_to_vec_with_limit(bytes, 256 << 20).ok()
}

pub fn deflate(packed: &[u8]) -> Vec<u8> {
    miniz_oxide::deflate::compress_to_vec(packed, 10)
}

pub fn decode(bytes: &[u8]) -> Option<(CCircuit, Vec<u8>)> {
    let packed = inflate(bytes)?;
    let (n, c) = CCircuit::unpack(&packed).ok()?;
    if n != packed.len() {
        return None;
    }
    Some((c, packed))
}

pub fn encode(c: &CCircuit) -> Vec<u8> {
    let mut packed = Vec::new();
    c.pack(&mut packed);
    deflate(&packed)
}

impl CPoly {
    pub fn indices(&self) -> [usize; 11] {
        [self.q_m, self.q_l, self.q_r, self.q_o, self.q_f, self.q_c, self.q_arith, self.q_range, self.q_logic, self.q_fixed_group_add, self.q_variable_group_add]
    }
}

/// One past the last valid scalar index of a description *produced by the compressor*: the
/// compressor appends a scalar to the table when it first uses it, so the largest index in use is
/// the last entry (descriptions without own scalars: no answer).
pub fn table_end(c: &CCircuit) -> Option<usize> {
    if c.scalars.is_empty() {
        return None;
    }
    c.polynomials.iter().flat_map(|p| p.indices()).max().map(|m| m + 1)
}

/// Independent well-formedness check of a description the library accepted (C17: "whatever they
/// accept consists only of canonically encoded field elements" and carries no out-of-range data).
/// `end`: one past the last valid scalar index, if known for this description's table flavour.
pub fn strict(bytes: &[u8], end: Option<usize>) -> Result<(), String> {
    use dusk_bytes::Serializable;
    let (c, _) = match decode(bytes) {
        Some(x) => x,
        None => return Err("the accepted description is not a single well-formed MessagePack payload in a deflate stream".into()),
    };
    for (i, s) in c.scalars.iter().enumerate() {
        if bool::from(dusk_bls12_381::BlsScalar::from_bytes(s).is_none()) {
            return Err(format!("scalar {} of {} in the table is not a canonical field element", i, c.scalars.len()));
        }
    }
    if c.public_inputs.windows(2).any(|w| w[0] >= w[1]) || c.public_inputs.iter().any(|r| *r >= c.constraints.len()) {
        return Err("public-input rows are not strictly increasing rows of the description".into());
    }
    for (i, k) in c.constraints.iter().enumerate() {
        if k.polynomial >= c.polynomials.len() || [k.a, k.b, k.c, k.d].iter().any(|w| *w >= c.witnesses) {
            return Err(format!("constraint {} refers to a selector row or witness that does not exist", i));
        }
    }
    if let Some(end) = end {
        for (i, p) in c.polynomials.iter().enumerate() {
            if p.indices().iter().any(|x| *x >= end) {
                return Err(format!("selector row {} refers to a scalar beyond the table", i));
            }
        }
    }
    Ok(())
}

#[derive(Clone, Debug, PartialEq)]
pub enum CcEdit {
    PiOutOfRange,
    PiUnsorted,
    PiDuplicate,
    PiExtraRow,
    WitnessesTooSmall,
    WitnessesHuge,
    WitnessesUnused(usize),
    ScalarIndexOutOfRange,
    /// a referenced selector row points 0..=31 entries beyond the end of the scalar table
    /// (built-in entries + the description's own): the narrow band just out of range
    ScalarIndexJustBeyond(usize),
    PolyIndexOutOfRange,
    WitnessIndexOutOfRange,
    ScalarNonCanonical,
    /// a non-canonical scalar appended to the scalar table; no selector row refers to it
    SpareScalarNonCanonical(usize),
    /// a selector row nobody refers to, with a scalar index beyond the table
    OrphanPolynomialBadIndex,
    ExtraConstraints(usize),
    ExtraPolynomials(usize),
    ExtraScalars(usize),
    TrailingPacked(usize),
    TrailingDeflate(usize),
    HugeArrayHeader(usize),
    Bomb(usize),
    HadesFlip,
    /// a valid description in which no gate multiplies (every q_m := 0)
    NoMultiplication,
    /// a valid description without its leading rows
    DropLeadingRows(usize),
    Empty,
}

impl CcEdit {
    pub fn kind(&self) -> &'static str {
        match self {
            CcEdit::PiOutOfRange => "cc.pi_out_of_range",
            CcEdit::PiUnsorted => "cc.pi_unsorted",
            CcEdit::PiDuplicate => "cc.pi_duplicate",
            CcEdit::PiExtraRow => "cc.pi_extra_row",
            CcEdit::WitnessesTooSmall => "cc.witnesses_too_small",
            CcEdit::WitnessesHuge => "cc.witnesses_huge",
            CcEdit::WitnessesUnused(_) => "cc.witnesses_unused_labels",
            CcEdit::ScalarIndexOutOfRange => "cc.scalar_index_out_of_range",
            CcEdit::ScalarIndexJustBeyond(_) => "cc.scalar_index_just_beyond_the_table",
            CcEdit::PolyIndexOutOfRange => "cc.poly_index_out_of_range",
            CcEdit::WitnessIndexOutOfRange => "cc.witness_index_out_of_range",
            CcEdit::ScalarNonCanonical => "cc.scalar_noncanonical",
            CcEdit::SpareScalarNonCanonical(_) => "cc.spare_scalar_noncanonical",
            CcEdit::OrphanPolynomialBadIndex => "cc.orphan_polynomial_bad_index",
            CcEdit::ExtraConstraints(_) => "cc.extra_constraints",
            CcEdit::ExtraPolynomials(_) => "cc.extra_polynomials",
            CcEdit::ExtraScalars(_) => "cc.extra_scalars",
            CcEdit::TrailingPacked(_) => "cc.trailing_bytes_in_payload",
            CcEdit::TrailingDeflate(_) => "cc.trailing_bytes_after_deflate",
            CcEdit::HugeArrayHeader(_) => "cc.huge_array_header",
            CcEdit::Bomb(_) => "cc.deflate_bomb",
            CcEdit::HadesFlip => "cc.hades_flag_flip",
            CcEdit::NoMultiplication => "cc.no_multiplication_gates",
            CcEdit::DropLeadingRows(_) => "cc.drop_leading_rows",
            CcEdit::Empty => "cc.empty_description",
        }
    }
    /// Edits after which the description no longer denotes a valid circuit of
    /// the same size: these must be rejected.
    pub fn must_reject(&self) -> bool {
        matches!(
            self,
            CcEdit::PiOutOfRange
                | CcEdit::PiUnsorted
                | CcEdit::PiDuplicate
                | CcEdit::WitnessesTooSmall
                | CcEdit::ScalarIndexOutOfRange
                | CcEdit::ScalarIndexJustBeyond(_)
                | CcEdit::PolyIndexOutOfRange
                | CcEdit::WitnessIndexOutOfRange
                | CcEdit::ScalarNonCanonical
                | CcEdit::SpareScalarNonCanonical(_)
                | CcEdit::OrphanPolynomialBadIndex
                | CcEdit::TrailingPacked(_)
                | CcEdit::TrailingDeflate(_)
                | CcEdit::HugeArrayHeader(_)
        )
    }
}

pub fn random_edit(rng: &mut Rng) -> CcEdit {
    match rng.below(26) {
        24 | 25 => CcEdit::ScalarIndexJustBeyond(rng.usize(32)),
        22 => CcEdit::SpareScalarNonCanonical(rng.usize(4)),
        23 => CcEdit::OrphanPolynomialBadIndex,
        20 => CcEdit::NoMultiplication,
        21 => CcEdit::DropLeadingRows(1 + rng.usize(4)),
        0 => CcEdit::PiOutOfRange,
        1 => CcEdit::PiUnsorted,
        2 => CcEdit::PiDuplicate,
        3 => CcEdit::PiExtraRow,
        4 => CcEdit::WitnessesTooSmall,
        5 => CcEdit::WitnessesHuge,
        6 => CcEdit::WitnessesUnused(1 + rng.usize(1000)),
        7 => CcEdit::ScalarIndexOutOfRange,
        8 => CcEdit::PolyIndexOutOfRange,
        9 => CcEdit::WitnessIndexOutOfRange,
        10 => CcEdit::ScalarNonCanonical,
        11 => CcEdit::ExtraConstraints(1 + rng.usize(64)),
        12 => CcEdit::ExtraPolynomials(1 + rng.usize(64)),
        13 => CcEdit::ExtraScalars(1 + rng.usize(64)),
        14 => CcEdit::TrailingPacked(1 + rng.usize(16)),
        15 => CcEdit::TrailingDeflate(1 + rng.usize(16)),
        16 => CcEdit::HugeArrayHeader(rng.usize(4)),
        17 => CcEdit::Bomb(1 << (16 + rng.below(10))),
        18 => CcEdit::HadesFlip,
        _ => CcEdit::Empty,
    }
}

/// Apply an edit to a valid description; returns the hostile bytes, or None
/// if the edit does not apply (e.g. no public inputs to unsort).
pub fn apply(valid: &[u8], edit: &CcEdit, rng: &mut Rng) -> Option<Vec<u8>> {
    let (mut c, packed) = decode(valid)?;
    let n_rows = c.constraints.len();
    match edit {
        CcEdit::PiOutOfRange => {
            c.public_inputs.push(n_rows + rng.usize(3));
        }
        CcEdit::PiUnsorted => {
            if c.public_inputs.len() < 2 {
                return None;
            }
            let k = c.public_inputs.len();
            c.public_inputs.swap(0, k - 1);
        }
        CcEdit::PiDuplicate => {
            let v = *c.public_inputs.first()?;
            c.public_inputs.insert(0, v);
        }
        CcEdit::PiExtraRow => {
            // a valid but different description: one more public-input row
            let row = (0..n_rows).find(|r| !c.public_inputs.contains(r))?;
            c.public_inputs.push(row);
            c.public_inputs.sort_unstable();
        }
        CcEdit::WitnessesTooSmall => {
            let max = c.constraints.iter().map(|k| k.a.max(k.b).max(k.c).max(k.d)).max()?;
            c.witnesses = max;
        }
        CcEdit::WitnessesHuge => c.witnesses = usize::MAX >> rng.below(8),
        CcEdit::WitnessesUnused(k) => c.witnesses += *k,
        CcEdit::ScalarIndexOutOfRange => {
            let i = rng.usize(c.polynomials.len().max(1));
            let p = c.polynomials.get_mut(i)?;
            p.q_c = usize::MAX >> rng.below(40);
        }
        CcEdit::ScalarIndexJustBeyond(delta) => {
            let end = table_end(&c)?;
            // a selector row that some constraint refers to
            let used = c.constraints.get(rng.usize(c.constraints.len().max(1)))?.polynomial;
            let p = c.polynomials.get_mut(used)?;
            let slot = rng.usize(11);
            let v = end + *delta;
            match slot {
                0 => p.q_m = v,
                1 => p.q_l = v,
                2 => p.q_r = v,
                3 => p.q_o = v,
                4 => p.q_f = v,
                5 => p.q_c = v,
                6 => p.q_arith = v,
                7 => p.q_range = v,
                8 => p.q_logic = v,
                9 => p.q_fixed_group_add = v,
                _ => p.q_variable_group_add = v,
            }
        }
        CcEdit::PolyIndexOutOfRange => {
            let i = rng.usize(c.constraints.len().max(1));
            let np = c.polynomials.len();
            let k = c.constraints.get_mut(i)?;
            k.polynomial = np + rng.usize(3);
        }
        CcEdit::WitnessIndexOutOfRange => {
            let i = rng.usize(c.constraints.len().max(1));
            let w = c.witnesses;
            let k = c.constraints.get_mut(i)?;
            k.b = w + rng.usize(3);
        }
        CcEdit::ScalarNonCanonical => {
            // the scalar field modulus itself
            let r: [u8; 32] = [
                0x01, 0x00, 0x00, 0x00, 0xff, 0xff, 0xff, 0xff, 0xfe, 0x5b, 0xfe, 0xff, 0x02, 0xa4, 0xbd, 0x53, 0x05, 0xd8, 0xa1, 0x09, 0x08,
                0xd8, 0x39, 0x33, 0x48, 0x7d, 0x9d, 0x29, 0x53, 0xa7, 0xed, 0x73,
            ];
            if c.scalars.is_empty() {
                c.scalars.push(r);
            } else {
                let i = rng.usize(c.scalars.len());
                c.scalars[i] = r;
            }
        }
        CcEdit::SpareScalarNonCanonical(variant) => {
            // r, r + 1, 2^256 - 1, 2^255: none is the canonical encoding of a field element
            let mut v: [u8; 32] = [
                0x01, 0x00, 0x00, 0x00, 0xff, 0xff, 0xff, 0xff, 0xfe, 0x5b, 0xfe, 0xff, 0x02, 0xa4, 0xbd, 0x53, 0x05, 0xd8, 0xa1, 0x09, 0x08,
                0xd8, 0x39, 0x33, 0x48, 0x7d, 0x9d, 0x29, 0x53, 0xa7, 0xed, 0x73,
            ];
            match variant % 4 {
                0 => {}
                1 => v[0] = 0x02,
                2 => v = [0xff; 32],
                _ => {
                    v = [0u8; 32];
                    v[31] = 0x80;
                }
            }
            c.scalars.push(v);
        }
        CcEdit::OrphanPolynomialBadIndex => {
            let mut p = *c.polynomials.last()?;
            p.q_o = usize::MAX >> rng.below(40);
            c.polynomials.push(p);
        }
        CcEdit::ExtraConstraints(k) => {
            let last = *c.constraints.last()?;
            for _ in 0..*k {
                c.constraints.push(last);
            }
        }
        CcEdit::ExtraPolynomials(k) => {
            let last = *c.polynomials.last()?;
            for _ in 0..*k {
                c.polynomials.push(last);
            }
        }
        CcEdit::ExtraScalars(k) => {
            for _ in 0..*k {
                let mut s = [0u8; 32];
                rng.fill(&mut s[..31]);
                c.scalars.push(s);
            }
        }
        CcEdit::TrailingPacked(k) => {
            let mut p = packed.clone();
            p.extend(rng.bytes(*k));
            return Some(deflate(&p));
        }
        CcEdit::TrailingDeflate(k) => {
            let mut v = valid.to_vec();
            v.extend(rng.bytes(*k));
            return Some(v);
        }
        CcEdit::HugeArrayHeader(which) => {
            // replace the which-th array header of the payload by a 32-bit header announcing 2^32-1 elements
            let mut p = Vec::new();
            c.hades_optimization.pack(&mut p);
            let mut sections: Vec<Vec<u8>> = Vec::new();
            let mut s = Vec::new();
            msgpacker::pack_array(&mut s, &c.public_inputs);
            sections.push(s);
            let mut s = Vec::new();
            c.witnesses.pack(&mut s);
            sections.push(s);
            let mut s = Vec::new();
            msgpacker::pack_array(&mut s, &c.scalars);
            sections.push(s);
            let mut s = Vec::new();
            msgpacker::pack_array(&mut s, &c.polynomials);
            sections.push(s);
            let mut s = Vec::new();
            msgpacker::pack_array(&mut s, &c.constraints);
            sections.push(s);
            let target = [0usize, 2, 3, 4][which % 4];
            for (i, s) in sections.iter().enumerate() {
                if i == target {
                    // strip the original header (fixarray / array16 / array32)
                    let hdr = match s[0] {
                        0x90..=0x9f => 1,
                        0xdc => 3,
                        0xdd => 5,
                        _ => return None,
                    };
                    p.extend_from_slice(&[0xdd, 0xff, 0xff, 0xff, 0xff]);
                    p.extend_from_slice(&s[hdr..]);
                } else {
                    p.extend_from_slice(s);
                }
            }
            return Some(deflate(&p));
        }
        CcEdit::Bomb(n) => {
            return Some(deflate(&vec![0u8; *n]));
        }
        CcEdit::HadesFlip => c.hades_optimization = !c.hades_optimization,
        CcEdit::NoMultiplication => {
            // scalar index 0 is the constant zero in both base tables
            for p in c.polynomials.iter_mut() {
                p.q_m = 0;
            }
        }
        CcEdit::DropLeadingRows(k) => {
            let k = (*k).min(c.constraints.len());
            c.constraints.drain(..k);
            c.public_inputs = c.public_inputs.iter().filter(|r| **r >= k).map(|r| r - k).collect();
        }
        CcEdit::Empty => {
            c.constraints.clear();
            c.public_inputs.clear();
            c.polynomials.clear();
            c.scalars.clear();
            c.witnesses = 0;
        }
    }
    Some(encode(&c))
}

//! C02 — soundness: no proof of a false statement is accepted.
//!
//! A Byzantine prover actor plus a corrupted channel.  Strategy classes
//! (seeded choice): (1) the honest algorithm on a faulted witness table with
//! the unsatisfied-circuit check forced off and the remainder dropped;
//! (2) the same on the re-wired twin (all rows hold, one compiled copy
//! constraint broken); (3) field-wise splices of two valid proofs;
//! (4) substitution of any evaluation / commitment by another valid element;
//! (5) all-zero and all-identity proofs, with the honest public inputs and
//! with zeros; (6) a valid proof replayed with other public inputs.
//! Ground truth: RM-rows reports the assignment violated (1, 2), or the message
//! is not an honestly produced one (3-6).  Oracle: the verifier returns an
//! error — never Ok, never a panic — and the reference verifier agrees.

use dusk_plonk::prelude::*;

use crate::c05::{deploy_scenario, gen_fault, snapshot_of, HostFault};
use crate::channel::{apply, ChanFault, Msg};
use crate::deploy::{self, proof_bytes};
use crate::framework::{RunCtx, Violation};
use crate::json::J;
use crate::mirror::deliver;
use crate::prng::digest;
use crate::rm_rows;
use crate::scenario::{gen_scenario, pick_class, scenario_sig, ScenCfg};
use crate::seams::{guarded, ScriptedRng};

pub fn run(ctx: &mut RunCtx) -> Result<(), Violation> {
    let mut w = ctx.stream("workload");
    let mut s = ctx.stream("sched");
    let mut f = ctx.stream("faults");
    let class = if ctx.thorough { pick_class(&mut w, [10, 4, 1, 0]) } else { pick_class(&mut w, [12, 2, 0, 0]) };
    let heavy = w.chance(1, 4);
    let exact = w.chance(1, 2);
    let sc = gen_scenario(ctx, &mut w, &ScenCfg { class, heavy, raw: true, exact_target: exact, max_ops: 20 });
    let sig = scenario_sig(&sc);
    let env = ctx.env(&mut s);
    let dep = match deploy_scenario(ctx, &sc, &env)? {
        Some(d) => d,
        None => return Ok(()),
    };
    // two honest proofs (material for splices and replays)
    let mut honest: Vec<Msg> = Vec::new();
    for k in 0..2u64 {
        let mut rng = ScriptedRng::new(sc.rng_seed ^ (k << 9));
        let env_p = ctx.env(&mut s);
        match deploy::prove(&dep.prover, &sc.prog, &sc.tape, &mut rng, PlonkVersion::V3, &env_p) {
            Ok((p, pi)) => honest.push(Msg { proof: proof_bytes(&p), pi, version: PlonkVersion::V3 }),
            Err(_) => {
                ctx.st.probe("honest_prove_failed(C01 territory)");
                return Ok(());
            }
        }
    }
    // control: the honest messages themselves, on the real and the reference verifier
    for m in &honest {
        let env_v = ctx.env(&mut s);
        let d = deliver(ctx, &dep.node, m, m.version, &env_v)?;
        if !d.accepted() {
            ctx.st.probe("honest_rejected(C01 territory)");
            return Ok(());
        }
    }
    let reject = |ctx: &mut RunCtx, m: &Msg, strategy: &str, s: &mut crate::prng::Rng| -> Result<(), Violation> {
        let env_v = ctx.env(s);
        let d = deliver(ctx, &dep.node, m, m.version, &env_v)?;
        if d.accepted() {
            return Err(Violation::new("I-soundness", format!("a proof of a false statement was accepted (strategy: {})", strategy)));
        }
        Ok(())
    };

    // ---- strategies 1 and 2: forced proofs from violating assignments
    let n_forced = if ctx.thorough { 16 } else { 8 };
    let mut forged = 0;
    ctx.hints.n_faults = n_forced;
    let keep = if ctx.spec.get("keepf").is_some() { Some(ctx.spec.list("keepf")) } else { None };
    for k in 0..n_forced {
        let fault = gen_fault(&mut f, &sc, &dep);
        let env_p = ctx.env(&mut s);
        if let Some(kf) = &keep {
            if !kf.contains(&k) {
                continue;
            }
        }
        // ground truth from the independent row evaluator
        fault.arm();
        let snap = guarded(|| snapshot_of(&sc, &sc.tape));
        let fired = HostFault::disarm();
        let verdict = match snap {
            Ok(Ok(sn)) => rm_rows::evaluate(&dep.compiled, &sn),
            Ok(Err(_)) => continue,
            Err(p) => return Err(Violation::new("panic", format!("synthesis panicked under {:?}: {}", fault, p))),
        };
        if verdict.satisfied() || matches!(verdict, rm_rows::RowVerdict::SizeMismatch(..)) {
            ctx.st.probe("fault_left_the_statement_true(skipped)");
            continue;
        }
        let _ = fired;
        // the Byzantine prover: honest algorithm, unsatisfied check forced off
        fault.arm();
        dusk_plonk::verif::set_force(true);
        let mut rng = ScriptedRng::new(sc.rng_seed ^ 0xB12 ^ k as u64);
        let res = guarded(|| deploy::prove(&dep.prover, &sc.prog, &sc.tape, &mut rng, PlonkVersion::V3, &env_p));
        dusk_plonk::verif::set_force(false);
        HostFault::disarm();
        ctx.st.steps += 1;
        let strategy = match &fault {
            HostFault::Twin(..) => "forced_proof_of_rewired_twin",
            _ => "forced_proof_of_violated_gate_or_copy",
        };
        ctx.st.fault(&format!("byzantine.{}", strategy));
        ctx.st.fault(fault.kind());
        match res {
            Err(p) => return Err(Violation::new("panic", format!("forced proving panicked under {:?}: {}", fault, p))),
            Ok(Err(_)) => {
                ctx.st.probe("forced_prover_failed_elsewhere");
            }
            Ok(Ok((proof, pi))) => {
                forged += 1;
                ctx.st.probe("forged_proofs_delivered");
                ctx.note("fault", J::s(format!("{:?} -> {:?}", fault, verdict)));
                ctx.st.eval(sig ^ digest(format!("{:?}", fault).as_bytes()), true);
                let m = Msg { proof: proof_bytes(&proof), pi, version: PlonkVersion::V3 };
                reject(ctx, &m, strategy, &mut s)?;
                // the forged proof together with the honest public inputs
                if m.pi != honest[0].pi {
                    let m2 = Msg { proof: m.proof.clone(), pi: honest[0].pi.clone(), version: PlonkVersion::V3 };
                    reject(ctx, &m2, "forced_proof_with_honest_public_inputs", &mut s)?;
                }
            }
        }
    }

    // ---- strategies 3-6: splices, substitutions, degenerate proofs, replays
    let mut channel_faults: Vec<ChanFault> = vec![ChanFault::ZeroProof, ChanFault::IdentityProof];
    for _ in 0..6 {
        channel_faults.push(ChanFault::SpliceMask((f.u64() as u32) & ((1 << 26) - 1)));
    }
    // every commitment once as the point at infinity, its claimed evaluations left as they are
    // (a term a verifier skips for the identity shows in the pairing product)
    for i in 0..crate::channel::N_COMMS {
        channel_faults.push(ChanFault::NeutralField(i));
    }
    for _ in 0..6 {
        channel_faults.push(ChanFault::SpliceField(f.usize(26)));
        channel_faults.push(ChanFault::SwapField(f.usize(26), f.usize(26)));
        channel_faults.push(ChanFault::FreshField(f.usize(26)));
    }
    for cf in &channel_faults {
        let m = apply(&honest[0], cf, Some(&honest[1]), &mut f);
        if m == honest[0] || m == honest[1] {
            continue;
        }
        ctx.st.fault(&format!("byzantine.{}", cf.kind()));
        ctx.st.eval(sig ^ digest(&m.proof), true);
        ctx.note("fault", J::s(format!("{:?}", cf)));
        reject(ctx, &m, cf.kind(), &mut s)?;
        if matches!(cf, ChanFault::ZeroProof | ChanFault::IdentityProof) {
            let m0 = Msg { proof: m.proof.clone(), pi: vec![BlsScalar::zero(); m.pi.len()], version: m.version };
            reject(ctx, &m0, "degenerate_proof_with_zero_public_inputs", &mut s)?;
        }
    }
    // ---- strategy 7: forgeries solved for from public data (re-balanced opening witnesses)
    {
        let pp_bytes = deploy::pp_with_degree(sc.degree).to_var_bytes();
        if let Some(x1) = crate::c06::srs_point(&pp_bytes, 1) {
            for k in 0..2 {
                let c = if k == 0 { BlsScalar::one() } else { f.scalar() };
                if let Some(m) = crate::channel::rebalance_openings(&honest[k % 2], &dep.node.rm, &x1, c) {
                    // harness self-check: the forgery balances the equation for the original u
                    {
                        use crate::rm_verify::{challenges, verify_parsed_with_u, RefProof, Version};
                        let p0 = RefProof::parse(&honest[k % 2].proof).expect("honest proof parses");
                        let u0 = challenges(&dep.node.rm, &p0, &honest[k % 2].pi, Version::V3).u;
                        let p1 = RefProof::parse(&m.proof).expect("forged proof parses");
                        // (meaningful only if the honest proof satisfies the protocol's equation in the first
                        // place; if it does not, that is reported by the deliveries below, not here)
                        if verify_parsed_with_u(&dep.node.rm, &p0, &honest[k % 2].pi, Version::V3, None).accepted() {
                            assert!(
                                verify_parsed_with_u(&dep.node.rm, &p1, &m.pi, Version::V3, Some(u0)).accepted(),
                                "harness: the re-balanced forgery does not balance for the original u"
                            );
                        } else {
                            ctx.st.probe("honest_proof_fails_the_reference_equation");
                        }
                    }
                    ctx.st.fault("byzantine.rebalanced_opening_witnesses");
                    ctx.st.eval(sig ^ digest(&m.proof) ^ 0x7, true);
                    ctx.note("fault", J::s("rebalanced opening witnesses"));
                    reject(ctx, &m, "rebalanced_opening_witnesses", &mut s)?;
                }
            }
        }
    }
    if !honest[0].pi.is_empty() {
        for cf in [ChanFault::PiAddOne(f.usize(64)), ChanFault::PiReplace(f.usize(64), f.scalar()), ChanFault::PiAllZero] {
            let m = apply(&honest[0], &cf, None, &mut f);
            if m == honest[0] {
                continue;
            }
            ctx.st.fault("byzantine.replay_with_other_public_inputs");
            ctx.st.eval(sig ^ digest(cf.kind().as_bytes()) ^ 0x99, true);
            reject(ctx, &m, "replay_with_other_public_inputs", &mut s)?;
        }
    }
    ctx.st.sample(J::obj(vec![
        ("run", J::U(ctx.run)),
        ("program", J::s(crate::program::describe(&sc.prog))),
        ("constraints", J::U(sc.constraints as u64)),
        ("forged_proofs_from_violating_assignments", J::U(forged)),
        ("channel_strategies", J::U(channel_faults.len() as u64)),
    ]));
    Ok(())
}

//! Delivery of a message to a verifier node: the real `Verifier` and the
//! independent reference verifier decide side by side (I-refine).

use dusk_bytes::DeserializableSlice;
use dusk_plonk::prelude::*;

use crate::channel::Msg;
use crate::framework::{RunCtx, Violation};
use crate::rm_verify::{self, Verdict, Version};
use crate::seams::{guarded, under, EnvCfg};

pub fn to_rm_version(v: PlonkVersion) -> Version {
    match v {
        PlonkVersion::V1 => Version::V1,
        PlonkVersion::V2 => Version::V2,
        _ => Version::V3,
    }
}

/// A verifier node: the real object plus the bytes the reference model reads.
pub struct VerifierNode {
    pub real: Verifier,
    pub bytes: Vec<u8>,
    pub rm: rm_verify::RefVerifier,
}

impl VerifierNode {
    pub fn new(real: Verifier) -> Result<VerifierNode, Violation> {
        let bytes = real.to_bytes();
        let rm = rm_verify::RefVerifier::parse(&bytes)
            .map_err(|e| Violation::new("I-refine", format!("reference model cannot parse Verifier::to_bytes(): {}", e)))?;
        Ok(VerifierNode { real, bytes, rm })
    }
}

#[derive(Clone, Debug, PartialEq, Eq)]
pub enum Decision {
    Accept,
    /// the proof bytes did not decode (rejected before the verifier ran)
    DecodeReject,
    Reject(String),
}

impl Decision {
    pub fn accepted(&self) -> bool {
        matches!(self, Decision::Accept)
    }
}

/// Deliver `msg` to the node under `version`.  Checks: no panic, and the real
/// verdict equals the reference verdict.  Returns the (agreed) decision.
pub fn deliver(ctx: &mut RunCtx, node: &VerifierNode, msg: &Msg, version: PlonkVersion, env: &EnvCfg) -> Result<Decision, Violation> {
    ctx.st.steps += 1;
    #[cfg(feature = "engine-std")]
    let _ = dusk_plonk::verif::take_challenge_log();
    #[cfg(feature = "engine-std")]
    let _ = dusk_plonk::verif::take_pairing_log();
    let real: Result<Decision, String> = guarded(|| {
        let proof = match Proof::from_slice(&msg.proof) {
            Ok(p) => p,
            Err(_) => return Decision::DecodeReject,
        };
        match under(env, || node.real.verify_with_version(&proof, &msg.pi, version)) {
            Ok(()) => Decision::Accept,
            Err(e) => Decision::Reject(crate::deploy::err_name(&e)),
        }
    });
    #[cfg(feature = "engine-std")]
    let real_challenges = dusk_plonk::verif::take_challenge_log();
    #[cfg(feature = "engine-std")]
    let real_products = dusk_plonk::verif::take_pairing_log();
    // I-canonical: whatever the proof decoder accepts re-encodes to itself
    if msg.proof.len() >= crate::channel::PROOF_SIZE {
        use dusk_bytes::Serializable;
        if let Ok(p) = Proof::from_slice(&msg.proof) {
            if p.to_bytes()[..] != msg.proof[..crate::channel::PROOF_SIZE] {
                return Err(Violation::new("I-canonical", "a 1008-byte string accepted by the proof decoder re-encodes differently"));
            }
        }
    }
    let real = match real {
        Ok(d) => d,
        Err(p) => return Err(Violation::new("panic", format!("verifier panicked on a delivered message: {}", p))),
    };
    // the reference decodes a 1008-byte string only; longer strings: the real decoder reads a prefix
    let rm = if msg.proof.len() < crate::channel::PROOF_SIZE {
        Verdict::Reject("short proof")
    } else {
        match rm_verify::RefProof::parse(&msg.proof[..crate::channel::PROOF_SIZE]) {
            Some(p) => rm_verify::verify_parsed(&node.rm, &p, &msg.pi, to_rm_version(version)),
            None => Verdict::Reject("proof does not decode"),
        }
    };
    // the transcript itself: every challenge the real verifier squeezed must be the one the
    // protocol's transcript yields (order and content of everything absorbed before it)
    #[cfg(feature = "engine-std")]
    if msg.proof.len() >= crate::channel::PROOF_SIZE && msg.pi.len() == node.rm.pi_rows.len() {
        if let Some(p) = rm_verify::RefProof::parse(&msg.proof[..crate::channel::PROOF_SIZE]) {
            let ch = rm_verify::challenges(&node.rm, &p, &msg.pi, to_rm_version(version));
            let want: [(&[u8], dusk_bls12_381::BlsScalar); 11] = [
                (b"beta", ch.beta),
                (b"gamma", ch.gamma),
                (b"alpha", ch.alpha),
                (b"range separation challenge", ch.range_sep),
                (b"logic separation challenge", ch.logic_sep),
                (b"fixed base separation challenge", ch.fixed_sep),
                (b"variable base separation challenge", ch.var_sep),
                (b"z_challenge", ch.z),
                (b"v_challenge", ch.v),
                (b"v_w_challenge", ch.v_w),
                (b"u_challenge", ch.u),
            ];
            if !real_challenges.is_empty() {
                ctx.st.probe("transcripts_compared_challenge_by_challenge");
                if real_challenges.len() != want.len() {
                    return Err(Violation::new(
                        "I-transcript",
                        format!("the verifier squeezed {} challenges, the protocol's transcript has {}", real_challenges.len(), want.len()),
                    ));
                }
                for (k, ((lbl, got), (wl, wv))) in real_challenges.iter().zip(want.iter()).enumerate() {
                    if *got != *wv {
                        return Err(Violation::new(
                            "I-transcript",
                            format!(
                                "challenge #{} ({}) of the real verifier differs from the protocol's transcript (expected label {}): something absorbed before it differs in content or order",
                                k,
                                String::from_utf8_lossy(lbl),
                                String::from_utf8_lossy(wl)
                            ),
                        ));
                    }
                }
            }
        }
    }
    // the equation itself: the pairing product the real verifier compares with the identity must be
    // the protocol's, e(left, [x]_2) / e(right, [1]_2), for the same message - on rejected messages
    // too.  (Verdicts alone only differ on messages built for the purpose; the product differs on
    // any message that touches a term the verifier leaves out.)  Either orientation is accepted.
    #[cfg(feature = "engine-std")]
    if let (Some((lhs, rhs)), Some(prod)) = (rm_verify::take_last_equation(), real_products.last()) {
        ctx.st.probe("pairing_products_compared");
        let ident = dusk_bls12_381::Gt::identity();
        let same = (*prod + rhs == lhs) || (*prod + lhs == rhs) || (*prod == ident && lhs == rhs);
        if !same {
            return Err(Violation::new(
                "I-equation",
                format!(
                    "the pairing product the verifier compares with the identity is not the protocol's for this message (version {}): the verifier evaluates another equation than e(W_z + u W_zw, [x]_2) = e(z W_z + u z w W_zw + F - E, [1]_2)",
                    crate::deploy::version_name(version)
                ),
            ));
        }
    }
    ctx.st.probe("verify_decisions_mirrored");
    {
        let d = crate::prng::digest(&msg.proof) ^ (real.accepted() as u64) ^ ((rm.accepted() as u64) << 1) ^ (msg.pi.len() as u64) << 8;
        ctx.st.log(d);
    }
    if real.accepted() != rm.accepted() {
        return Err(Violation::new(
            "I-refine",
            format!("real verifier says {:?}, reference verifier says {:?} (version {})", real, rm, crate::deploy::version_name(version)),
        ));
    }
    if real.accepted() {
        ctx.st.probe("verdict_accept");
    } else if real == Decision::DecodeReject {
        ctx.st.probe("verdict_decode_reject");
    } else {
        ctx.st.probe("verdict_reject");
    }
    Ok(real)
}

//! Delivery of a message to a verifier node: the real `Verifier` and the
//! independent reference verifier decide side by side (I-refine).

use dusk_bytes::DeserializableSlice;
use dusk_plonk::prelude::*;

use crate::channel::Msg;
use crate::framework::{RunCtx, Violation};
use crate::rm_verify::{self, Verdict, Version};
use crate::seams::{guarded, under, EnvCfg};

pub fn to_rm_version(v: PlonkVersion) -> Version {
    match v {
        PlonkVersion::V1 => Version::V1,
        PlonkVersion::V2 => Version::V2,
        _ => Version::V3,
    }
}

/// A verifier node: the real object plus the bytes the reference model reads.
pub struct VerifierNode {
    pub real: Verifier,
    pub bytes: Vec<u8>,
    pub rm: rm_verify::RefVerifier,
}

impl VerifierNode {
    pub fn new(real: Verifier) -> Result<VerifierNode, Violation> {
        let bytes = real.to_bytes();
        let rm = rm_verify::RefVerifier::parse(&bytes)
            .map_err(|e| Violation::new("I-refine", format!("reference model cannot parse Verifier::to_bytes(): {}", e)))?;
        Ok(VerifierNode { real, bytes, rm })
    }
}

#[derive(Clone, Debug, PartialEq, Eq)]
pub enum Decision {
    Accept,
    /// the proof bytes did not decode (rejected before the verifier ran)
    DecodeReject,
    Reject(String),
}

impl Decision {
    pub fn accepted(&self) -> bool {
        matches!(self, Decision::Accept)
    }
}

/// Deliver `msg` to the node under `version`.  Checks: no panic, and the real
/// verdict equals the reference verdict.  Returns the (agreed) decision.
pub fn deliver(ctx: &mut RunCtx, node: &VerifierNode, msg: &Msg, version: PlonkVersion, env: &EnvCfg) -> Result<Decision, Violation> {
    ctx.st.steps += 1;
    let real: Result<Decision, String> = guarded(|| {
        let proof = match Proof::from_slice(&msg.proof) {
            Ok(p) => p,
            Err(_) => return Decision::DecodeReject,
        };
        match under(env, || node.real.verify_with_version(&proof, &msg.pi, version)) {
            Ok(()) => Decision::Accept,
            Err(e) => Decision::Reject(crate::deploy::err_name(&e)),
        }
    });
    let real = match real {
        Ok(d) => d,
        Err(p) => return Err(Violation::new("panic", format!("verifier panicked on a delivered message: {}", p))),
    };
    // the reference decodes a 1008-byte string only; longer strings: the real decoder reads a prefix
    let rm = if msg.proof.len() < crate::channel::PROOF_SIZE {
        Verdict::Reject("short proof")
    } else {
        match rm_verify::RefProof::parse(&msg.proof[..crate::channel::PROOF_SIZE]) {
            Some(p) => rm_verify::verify_parsed(&node.rm, &p, &msg.pi, to_rm_version(version)),
            None => Verdict::Reject("proof does not decode"),
        }
    };
    ctx.st.probe("verify_decisions_mirrored");
    if real.accepted() != rm.accepted() {
        return Err(Violation::new(
            "I-refine",
            format!("real verifier says {:?}, reference verifier says {:?} (version {})", real, rm, crate::deploy::version_name(version)),
        ));
    }
    if real.accepted() {
        ctx.st.probe("verdict_accept");
    } else if real == Decision::DecodeReject {
        ctx.st.probe("verdict_decode_reject");
    } else {
        ctx.st.probe("verdict_reject");
    }
    Ok(real)
}

//! C05 — prover exactness: it proves iff the compiled constraints hold.
//!
//! The fail-stop contract of an honest prover on a faulty host.  One witness
//! fault at allocation instant k (honest continuation), or the re-wired twin
//! (every row satisfied, one compiled copy constraint broken); `force` off.
//! Oracle I-failstop, with RM-rows on the faulted snapshot:
//!   satisfied  => prove is Ok and the proof is accepted (real + reference);
//!   violated   => Err(CircuitUnsatisfied);
//!   row count changed => Err(InvalidCircuitSize);
//!   never a panic, never a proof that fails verification.

use dusk_plonk::prelude::*;

use crate::channel::Msg;
use crate::deploy::{self, proof_bytes, Route};
use crate::framework::{RunCtx, Violation};
use crate::json::J;
use crate::mirror::{deliver, VerifierNode};
use crate::prng::digest;
use crate::program::{ProgCircuit, Tape};
use crate::rm_rows::{self, RowVerdict};
use crate::scenario::{gen_scenario, pick_class, scenario_sig, ScenCfg, Scenario};
use crate::seams::{guarded, EnvCfg, ScriptedRng};
use crate::wfault::{self, WFault};

pub fn snapshot_of(sc: &Scenario, tape: &Tape) -> Result<dusk_plonk::verif::Snapshot, Error> {
    crate::program::snapshot_of(&sc.prog, tape)
}

#[derive(Clone, Debug)]
pub enum HostFault {
    Witness(usize, WFault),
    Twin(usize, BlsScalar),
    /// The instance is synthesised from a program that differs from the compiled one in one
    /// selector value of one arithmetic row, and the output witness of that row (allocation
    /// instant `at`) holds the value that satisfies the *compiled* row: every wire value equals the
    /// honest instance's, only the selectors the instance carries differ.  The compiled description
    /// is what an instance is proved against, so the prover must return a proof.
    SelectorTwin { prog: std::sync::Arc<crate::program::Program>, at: usize, value: BlsScalar },
    /// The instance allocates witnesses it never wires (many more than four per row): the rows,
    /// their wires and the public inputs are the honest ones, so the prover must return a proof.
    UnwiredWitnesses { prog: std::sync::Arc<crate::program::Program>, extra: usize },
}

impl HostFault {
    pub fn kind(&self) -> &'static str {
        match self {
            HostFault::Witness(_, f) => f.kind(),
            HostFault::Twin(..) => "witness.rewired_twin",
            HostFault::SelectorTwin { .. } => "instance.other_selectors_same_wire_values",
            HostFault::UnwiredWitnesses { .. } => "instance.many_unwired_witnesses",
        }
    }
    /// The program the faulty host synthesises the instance from.
    pub fn program<'a>(&'a self, sc: &'a Scenario) -> &'a std::sync::Arc<crate::program::Program> {
        match self {
            HostFault::SelectorTwin { prog, .. } | HostFault::UnwiredWitnesses { prog, .. } => prog,
            _ => &sc.prog,
        }
    }
    pub fn arm(&self) {
        match self {
            HostFault::Witness(k, f) => wfault::arm(*k, f.clone()),
            HostFault::Twin(at, d) => {
                wfault::arm_counter();
                crate::program::set_twin(Some((*at, *d)));
            }
            HostFault::SelectorTwin { at, value, .. } => wfault::arm(*at, WFault::Random(*value)),
            HostFault::UnwiredWitnesses { .. } => wfault::arm_counter(),
        }
    }
    pub fn disarm() -> wfault::Fired {
        crate::program::set_twin(None);
        wfault::disarm()
    }
}

pub struct Deployment {
    pub prover: Prover,
    pub node: VerifierNode,
    pub compiled: dusk_plonk::verif::Snapshot,
    pub n_witnesses: usize,
}

pub fn deploy_scenario(ctx: &mut RunCtx, sc: &Scenario, env: &EnvCfg) -> Result<Option<Deployment>, Violation> {
    let pp = deploy::pp_with_degree(sc.degree);
    let (prover, verifier) = match deploy::compile(&pp, &sc.label, &sc.prog, Route::WithCircuit, env) {
        Ok(k) => k,
        Err(_) => return Ok(None),
    };
    let compiled = match snapshot_of(sc, &Tape::default()) {
        Ok(s) => s,
        Err(_) => return Ok(None),
    };
    ctx.st.steps += 1;
    // I-sigma: the compiled permutation encodes exactly the layout's copy constraints
    if compiled.selectors.len() <= 512 {
        ctx.st.probe("compiled_permutation_checked_against_wiring");
        if let Err(e) = rm_rows::check_sigma(&prover.to_bytes(), &compiled) {
            return Err(Violation::new("I-sigma", format!("the compiled keys do not respect the layout's copy constraints: {}", e)));
        }
    }
    let n_witnesses = compiled.witnesses.len();
    Ok(Some(Deployment { prover, node: VerifierNode::new(verifier)?, compiled, n_witnesses }))
}

/// One proving request on a faulty host; returns whether a proof came out.
pub fn faulted_request(ctx: &mut RunCtx, sc: &Scenario, dep: &Deployment, fault: &HostFault, env_p: &EnvCfg, env_v: &EnvCfg, case: usize) -> Result<(), Violation> {
    // 1. what the host's memory looks like: synthesise the instance under the fault and snapshot it
    fault.arm();
    let snap = guarded(|| crate::program::snapshot_of(fault.program(sc), &sc.tape));
    let fired = HostFault::disarm();
    let snap = match snap {
        Ok(s) => s,
        Err(p) => return Err(Violation::new("panic", format!("circuit synthesis panicked under {:?}: {}", fault, p))),
    };
    if fired.fired {
        ctx.st.fault(fault.kind());
    } else if matches!(fault, HostFault::Twin(..) | HostFault::SelectorTwin { .. } | HostFault::UnwiredWitnesses { .. }) {
        ctx.st.fault(fault.kind());
    } else {
        ctx.st.probe("fault_instant_beyond_last_allocation");
    }
    // 2. the prover, under the same fault
    fault.arm();
    let mut rng = ScriptedRng::new(sc.rng_seed ^ case as u64);
    let res = guarded(|| deploy::prove(&dep.prover, fault.program(sc), &sc.tape, &mut rng, PlonkVersion::V3, env_p));
    HostFault::disarm();
    ctx.st.steps += 1;
    let res = match res {
        Ok(r) => r,
        Err(p) => return Err(Violation::new("panic", format!("Prover::prove panicked under {:?}: {}", fault, p))),
    };
    // 3. the independent row evaluator
    let (verdict, synth_err) = match &snap {
        Ok(s) => (Some(rm_rows::evaluate(&dep.compiled, s)), None),
        Err(e) => (None, Some(deploy::err_name(e))),
    };
    let desc = format!("{:?} (fired={}, changed={})", fault, fired.fired, fired.changed);
    ctx.note("fault", J::s(desc.clone()));
    ctx.note("row_evaluator", J::s(format!("{:?}", verdict)));
    ctx.st.log(digest(format!("{:?}|{}", verdict, res.is_ok()).as_bytes()));
    let sig = scenario_sig(sc) ^ digest(desc.as_bytes());
    ctx.st.eval(sig, fired.changed || matches!(fault, HostFault::Twin(..) | HostFault::SelectorTwin { .. } | HostFault::UnwiredWitnesses { .. }));
    match (verdict, res) {
        (None, Err(e)) => {
            // synthesis itself returned an error; the prover must report it
            if Some(deploy::err_name(&e)) != synth_err {
                return Err(Violation::new("I-failstop", format!("synthesis fails with {:?} but the prover reports {:?} ({})", synth_err, e, desc)));
            }
            ctx.st.probe("synthesis_error_reported");
            Ok(())
        }
        (None, Ok(_)) => Err(Violation::new("I-failstop", format!("synthesis fails with {:?} but the prover returned a proof ({})", synth_err, desc))),
        (Some(RowVerdict::Satisfied), Ok((proof, pi))) => {
            ctx.st.probe("satisfied=>proof");
            let msg = Msg { proof: proof_bytes(&proof), pi, version: PlonkVersion::V3 };
            let d = deliver(ctx, &dep.node, &msg, PlonkVersion::V3, env_v)?;
            if !d.accepted() {
                // a shape change would explain it (C07 territory), otherwise the prover returned a bad proof
                let shape = snap.as_ref().ok().map(|s| rm_rows::same_shape(&dep.compiled, s));
                return Err(Violation::new("I-failstop", format!("the prover returned a proof that fails verification ({:?}); rows satisfied; shape check {:?}; {}", d, shape, desc)));
            }
            Ok(())
        }
        (Some(RowVerdict::Satisfied), Err(e)) => Err(Violation::new(
            "I-failstop",
            format!("every row and copy constraint of the compiled layout holds, but the prover refuses with {:?} ({})", e, desc),
        )),
        (Some(RowVerdict::SizeMismatch(a, b)), Err(e)) => {
            if deploy::err_name(&e) != "InvalidCircuitSize" {
                return Err(Violation::new("I-failstop", format!("instance has {} rows, layout {}, but the prover reports {:?}", a, b, e)));
            }
            ctx.st.probe("size_mismatch=>InvalidCircuitSize");
            Ok(())
        }
        (Some(v), Err(e)) => {
            if deploy::err_name(&e) != "CircuitUnsatisfied" {
                return Err(Violation::new("I-failstop", format!("the row evaluator reports {:?} but the prover fails with {:?} instead of CircuitUnsatisfied ({})", v, e, desc)));
            }
            match v {
                RowVerdict::GateViolated(..) => ctx.st.probe("gate_violated=>CircuitUnsatisfied"),
                RowVerdict::CopyViolated(..) => ctx.st.probe("copy_violated=>CircuitUnsatisfied"),
                _ => {}
            }
            Ok(())
        }
        (Some(v), Ok(_)) => Err(Violation::new("I-failstop", format!("the prover returned a proof although the row evaluator reports {:?} ({})", v, desc))),
    }
}

/// See `HostFault::SelectorTwin`.
pub fn selector_twin(f: &mut crate::prng::Rng, sc: &Scenario) -> Option<HostFault> {
    use crate::program::{Op, Program};
    let sites: Vec<usize> = sc
        .prog
        .ops
        .iter()
        .enumerate()
        .filter(|(_, op)| matches!(op, Op::EvalOut { q, .. } if q[3] != BlsScalar::zero()) || matches!(op, Op::GateAdd { .. } | Op::GateMul { .. }))
        .map(|(i, _)| i)
        .collect();
    if sites.is_empty() {
        return None;
    }
    let i = sites[f.usize(sites.len())];
    let mut p: Program = (*sc.prog).clone();
    let delta = if f.chance(1, 2) { BlsScalar::one() } else { f.scalar() };
    let scaling = f.chance(1, 3);
    match &mut p.ops[i] {
        Op::EvalOut { q, .. } => {
            let j = if scaling { f.usize(3) } else { 5 };
            q[j] += delta;
        }
        Op::GateAdd { l, c, .. } => {
            if scaling {
                *l += delta
            } else {
                *c += delta
            }
        }
        Op::GateMul { m, c, .. } => {
            if scaling {
                *m += delta
            } else {
                *c += delta
            }
        }
        _ => return None,
    }
    let honest = crate::program::snapshot_of(&sc.prog, &sc.tape).ok()?;
    let other = crate::program::snapshot_of(&p, &sc.tape).ok()?;
    if honest.witnesses.len() != other.witnesses.len() {
        return None;
    }
    // the first stored value that differs is the output of the edited row
    let at = (0..honest.witnesses.len()).find(|k| honest.witnesses[*k] != other.witnesses[*k])?;
    Some(HostFault::SelectorTwin { prog: std::sync::Arc::new(p), at, value: honest.witnesses[at] })
}

pub fn gen_fault(f: &mut crate::prng::Rng, sc: &Scenario, dep: &Deployment) -> HostFault {
    if f.chance(1, 24) {
        // a few, four per row, or many more witnesses than the rows could ever wire
        let extra = *f.pick(&[1usize, 4 * sc.constraints + 3, 8 * sc.constraints + 50, 1000]);
        let mut p = (*sc.prog).clone();
        for _ in 0..extra {
            p.ops.push(crate::program::Op::Input(crate::program::Kind::Any));
        }
        return HostFault::UnwiredWitnesses { prog: std::sync::Arc::new(p), extra };
    }
    if f.chance(1, 8) {
        if let Some(t) = selector_twin(f, sc) {
            return t;
        }
    }
    let sites = crate::program::twin_sites(&sc.prog);
    if !sites.is_empty() && f.chance(1, 6) {
        let at = sites[f.usize(sites.len())];
        // delta 0: the instance is wired differently but every compiled copy constraint still holds
        let d = match f.below(3) {
            0 => BlsScalar::zero(),
            1 => BlsScalar::one(),
            _ => f.scalar(),
        };
        HostFault::Twin(at, d)
    } else {
        HostFault::Witness(f.usize(dep.n_witnesses.max(1)), wfault::random(f))
    }
}

pub fn run(ctx: &mut RunCtx) -> Result<(), Violation> {
    let mut w = ctx.stream("workload");
    let mut s = ctx.stream("sched");
    let mut f = ctx.stream("faults");
    let class = if ctx.thorough { pick_class(&mut w, [10, 4, 1, 0]) } else { pick_class(&mut w, [12, 2, 0, 0]) };
    let heavy = w.chance(1, 4);
    let exact = w.chance(1, 2);
    let mut sc = gen_scenario(ctx, &mut w, &ScenCfg { class, heavy, raw: true, exact_target: exact, max_ops: 20 });
    // structured double faults: one witness constrained on two rows half a domain apart, so that a
    // single memory fault violates both rows by the same amount (the row errors cancel in the
    // top coefficient of the remainder)
    let symmetric = w.chance(1, 8) && !ctx.spec.flag("nosym");
    if symmetric {
        ctx.hints.extra.push(("nosym".into(), "1".into()));
        let k = 3 + w.usize(4);
        let n = 1usize << k;
        let half = n / 2;
        let total = n - w.usize(3);
        let mut ops = vec![crate::program::Op::SymmetricPair { c: w.scalar_edgy(), half }];
        let used = 4 + half + 1;
        if total > used {
            ops.push(crate::program::Op::Filler(total - used));
        }
        let prog = std::sync::Arc::new(crate::program::Program { ops });
        sc.constraints = crate::program::count_constraints(&prog).unwrap_or(0);
        sc.degree = crate::deploy::min_degree_for(sc.constraints) + w.usize(3);
        sc.tape = crate::program::Tape::default();
        sc.prog = prog;
        ctx.note("program", J::s(crate::program::describe(&sc.prog)));
        ctx.st.probe("symmetric_pair_scenarios");
    }
    let env = ctx.env(&mut s);
    let dep = match deploy_scenario(ctx, &sc, &env)? {
        Some(d) => d,
        None => return Ok(()),
    };
    // control: the unfaulted instance
    {
        let honest = snapshot_of(&sc, &sc.tape).map_err(|e| Violation::new("I-failstop", format!("honest synthesis failed: {:?}", e)))?;
        if let Err(e) = rm_rows::same_shape(&dep.compiled, &honest) {
            return Err(Violation::new("I-shape", format!("the honest instance has another shape than the default instance: {}", e)));
        }
        let v = rm_rows::evaluate(&dep.compiled, &honest);
        if !v.satisfied() {
            return Err(Violation::new("I-failstop", format!("the row evaluator rejects an honest instance: {:?} (generator or evaluator defect)", v)));
        }
    }
    // small programs: enumerate every allocation instant x the fixed corruption kinds (thorough tier)
    let enumerate = ctx.thorough && dep.n_witnesses <= 300 && ctx.run % 8 == 0;
    let mut faults: Vec<HostFault> = Vec::new();
    if enumerate {
        ctx.st.probe("programs_with_every_allocation_instant_enumerated");
        for k in 0..dep.n_witnesses {
            for kind in wfault::enumeration_kinds() {
                faults.push(HostFault::Witness(k, kind));
            }
        }
    } else {
        let n = if ctx.thorough { 24 } else { 12 };
        for _ in 0..n {
            if symmetric && f.chance(2, 3) {
                // the pair's witness is the first one after the composer's own six
                faults.push(HostFault::Witness(6, wfault::random(&mut f)));
            } else {
                faults.push(gen_fault(&mut f, &sc, &dep));
            }
        }
    }
    ctx.hints.n_faults = faults.len();
    let keep = if ctx.spec.get("keepf").is_some() { Some(ctx.spec.list("keepf")) } else { None };
    for (k, fault) in faults.iter().enumerate() {
        let env_p = ctx.env(&mut s);
        let env_v = ctx.env(&mut s);
        if let Some(kf) = &keep {
            if !kf.contains(&k) {
                continue;
            }
        }
        faulted_request(ctx, &sc, &dep, fault, &env_p, &env_v, k)?;
    }
    ctx.st.sample(J::obj(vec![
        ("run", J::U(ctx.run)),
        ("program", J::s(crate::program::describe(&sc.prog))),
        ("constraints", J::U(sc.constraints as u64)),
        ("witnesses", J::U(dep.n_witnesses as u64)),
        ("faults", J::A(faults.iter().take(4).map(|x| J::s(format!("{:?}", x))).collect())),
        ("enumerated", J::Bool(enumerate)),
    ]));
    let _ = ProgCircuit::default;
    Ok(())
}

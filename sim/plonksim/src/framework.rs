//! Run loop, statistics, violations, replay specs and minimisation.

use std::collections::{BTreeMap, BTreeSet};
use std::time::Instant;

use crate::json::J;
use crate::prng::{derive, tag, Rng};
use crate::seams::{guarded, random_env, EnvCfg, SchedStats, SCHED};

/// Overrides of a run, as `k=v;k=v`.  Empty for ordinary runs; the minimiser
/// and replay files use it to pin or simplify dimensions of a run.
#[derive(Clone, Debug, Default, PartialEq, Eq)]
pub struct Spec {
    pub kv: BTreeMap<String, String>,
}

impl Spec {
    pub fn parse(s: &str) -> Spec {
        let mut kv = BTreeMap::new();
        for part in s.split(';') {
            if let Some((k, v)) = part.split_once('=') {
                kv.insert(k.trim().to_string(), v.trim().to_string());
            }
        }
        Spec { kv }
    }
    pub fn render(&self) -> String {
        self.kv.iter().map(|(k, v)| format!("{}={}", k, v)).collect::<Vec<_>>().join(";")
    }
    pub fn get(&self, k: &str) -> Option<&str> {
        self.kv.get(k).map(|s| s.as_str())
    }
    pub fn flag(&self, k: &str) -> bool {
        self.get(k).map(|v| v != "0").unwrap_or(false)
    }
    pub fn u64(&self, k: &str) -> Option<u64> {
        self.get(k).and_then(|v| v.parse().ok())
    }
    pub fn list(&self, k: &str) -> Vec<usize> {
        self.get(k).map(|v| v.split(',').filter_map(|x| x.parse().ok()).collect()).unwrap_or_default()
    }
    pub fn with(&self, k: &str, v: impl Into<String>) -> Spec {
        let mut s = self.clone();
        s.kv.insert(k.to_string(), v.into());
        s
    }
    pub fn with_list(&self, k: &str, xs: &[usize]) -> Spec {
        self.with(k, xs.iter().map(|x| x.to_string()).collect::<Vec<_>>().join(","))
    }
}

#[derive(Clone, Debug)]
pub struct Violation {
    /// invariant id (I-determ, I-valid, panic, ...): the *class* that must persist under minimisation
    pub invariant: String,
    pub detail: String,
}

impl Violation {
    pub fn new(invariant: &str, detail: impl Into<String>) -> Violation {
        Violation { invariant: invariant.to_string(), detail: detail.into() }
    }
}

#[derive(Clone, Debug, Default)]
pub struct Stats {
    pub runs: u64,
    pub evaluations: u64,
    pub steps: u64,
    pub nontrivial: BTreeSet<u64>,
    pub faults: BTreeMap<String, u64>,
    pub probes: BTreeMap<String, u64>,
    pub ops_used: BTreeMap<String, u64>,
    pub samples: Vec<J>,
    pub notes: BTreeMap<String, String>,
    /// deviations that are candidates for the known-findings file: key -> (count, first detail, first run)
    pub findings: BTreeMap<String, (u64, String, u64)>,
    /// run currently executing (for findings)
    pub cur_run: u64,
    /// running hash of everything the current run observed (the run's event log)
    pub cur_log: u64,
    /// run index -> event-log hash (determinism self-check)
    pub runlogs: BTreeMap<u64, u64>,
}

impl Stats {
    pub fn fault(&mut self, kind: &str) {
        *self.faults.entry(kind.to_string()).or_insert(0) += 1;
    }
    pub fn probe(&mut self, name: &str) {
        *self.probes.entry(name.to_string()).or_insert(0) += 1;
    }
    pub fn probe_n(&mut self, name: &str, n: u64) {
        *self.probes.entry(name.to_string()).or_insert(0) += n;
    }
    pub fn sample(&mut self, j: J) {
        if self.samples.len() < 6 {
            self.samples.push(j);
        }
    }
    /// Count one evaluated case; `sig` identifies it for the distinct count,
    /// `nontrivial` says whether it fired a fault / took a non-canonical path.
    /// Record a deviation from the property that is identified by a stable key
    /// (a specific input class / call site).  The driver reports it as
    /// KNOWN-FINDING if the key is listed in known_findings.txt, and as a
    /// VIOLATION otherwise.  The run continues.
    pub fn finding(&mut self, key: &str, detail: String) {
        let run = self.cur_run;
        let e = self.findings.entry(key.to_string()).or_insert((0, detail, run));
        e.0 += 1;
        let d = crate::prng::digest(key.as_bytes());
        self.log(d);
    }
    pub fn log(&mut self, v: u64) {
        let mut x = self.cur_log ^ v.wrapping_mul(0x9E37_79B9_7F4A_7C15);
        self.cur_log = crate::prng::splitmix64(&mut x);
    }
    pub fn log_bytes(&mut self, b: &[u8]) {
        self.log(crate::prng::digest(b));
    }
    pub fn eval(&mut self, sig: u64, nontrivial: bool) {
        self.log(sig);
        self.evaluations += 1;
        if nontrivial && self.nontrivial.len() < 4_000_000 {
            self.nontrivial.insert(sig);
        }
    }
}

/// Hints a run leaves for the minimiser.
#[derive(Clone, Debug, Default)]
pub struct Hints {
    pub n_ops: usize,
    pub n_faults: usize,
    /// property-specific single-step simplifications: (key, value)
    pub extra: Vec<(String, String)>,
}

pub struct RunCtx<'a> {
    pub prop: &'static str,
    pub seed: u64,
    pub run: u64,
    pub thorough: bool,
    pub spec: Spec,
    pub st: &'a mut Stats,
    pub hints: Hints,
    /// human-readable explicit description of the scenario, filled as the run proceeds
    pub explicit: Vec<(String, J)>,
}

impl<'a> RunCtx<'a> {
    pub fn stream(&self, name: &str) -> Rng {
        Rng::new(derive(self.seed, &[tag(self.prop), self.run, tag(name)]))
    }
    /// A random environment for one operation, honouring overrides.
    pub fn env(&self, rng: &mut Rng) -> EnvCfg {
        let mut e = random_env(rng);
        if self.spec.flag("canon_env") {
            return EnvCfg::canonical();
        }
        if let Some(t) = self.spec.u64("T") {
            e.threads = t as usize;
        }
        if let Some(b) = self.spec.u64("sb") {
            e.sched_budget = b;
        }
        if self.spec.flag("hash0") {
            e.hash_seed = 0;
        }
        e
    }
    pub fn note(&mut self, k: &str, v: J) {
        if let Some(slot) = self.explicit.iter_mut().find(|(kk, _)| kk == k) {
            slot.1 = v;
        } else {
            self.explicit.push((k.to_string(), v));
        }
    }
}

pub type PropFn = fn(&mut RunCtx) -> Result<(), Violation>;

static PROGRESS: std::sync::OnceLock<String> = std::sync::OnceLock::new();

pub fn set_progress_file(p: String) {
    let _ = PROGRESS.set(p);
}

/// Pre-case line for the supervisor: if the process aborts or hangs, the last
/// line names the case in flight.
pub fn progress_case(prop: &str, run: u64, case: usize, what: &str) {
    if let Some(p) = PROGRESS.get() {
        use std::io::Write;
        if let Ok(mut fh) = std::fs::OpenOptions::new().create(true).append(true).open(p) {
            let _ = writeln!(fh, "CASE {} {} {} {}", prop, run, case, what);
        }
    }
}

pub struct Outcome {
    pub violation: Option<Violation>,
    pub hints: Hints,
    pub explicit: Vec<(String, J)>,
}

/// Execute one run (pure function of prop, seed, run, spec and the code).
pub fn execute(prop: &'static str, f: PropFn, seed: u64, run: u64, thorough: bool, spec: &Spec, st: &mut Stats) -> Outcome {
    st.cur_log = 0;
    st.cur_run = run;
    let mut ctx = RunCtx { prop, seed, run, thorough, spec: spec.clone(), st, hints: Hints::default(), explicit: Vec::new() };
    let r = guarded(|| f(&mut ctx));
    if let Ok(Err(v)) = &r {
        let d = crate::prng::digest(v.invariant.as_bytes());
        ctx.st.log(d);
    }
    let l = ctx.st.cur_log;
    ctx.st.runlogs.insert(run, l);
    let violation = match r {
        Ok(Ok(())) => None,
        Ok(Err(v)) => Some(v),
        Err(msg) => {
            // a panic that escaped the property's own guards
            if msg.contains("plonksim/src") {
                eprintln!("HARNESS-ERROR prop={} run={} spec={} panic in harness: {}", prop, run, spec.render(), msg);
                std::process::exit(2);
            }
            Some(Violation::new("panic", msg))
        }
    };
    Outcome { violation, hints: ctx.hints, explicit: ctx.explicit }
}

/// Greedy minimisation: keep a simplification while the same invariant class
/// is still violated.
pub fn minimise(prop: &'static str, f: PropFn, seed: u64, run: u64, thorough: bool, first: &Outcome, budget_s: f64) -> (Spec, Outcome, u64) {
    let t0 = Instant::now();
    let inv = first.violation.as_ref().unwrap().invariant.clone();
    let mut best_spec = Spec::default();
    let mut best = Outcome { violation: first.violation.clone(), hints: first.hints.clone(), explicit: first.explicit.clone() };
    let mut attempts = 0u64;
    let mut scratch = Stats::default();
    let mut try_spec = |cand: &Spec, best_spec: &mut Spec, best: &mut Outcome, attempts: &mut u64| -> bool {
        *attempts += 1;
        let o = execute(prop, f, seed, run, thorough, cand, &mut scratch);
        if o.violation.as_ref().map(|v| v.invariant == inv).unwrap_or(false) {
            *best_spec = cand.clone();
            *best = o;
            true
        } else {
            false
        }
    };
    let out_of_time = |t0: &Instant, attempts: u64| t0.elapsed().as_secs_f64() > budget_s || attempts > 400;

    // 1. configuration dimensions to canonical, one at a time
    for (k, v) in [("canon_env", "1"), ("hash0", "1"), ("T", "1"), ("sb", "0")] {
        if out_of_time(&t0, attempts) {
            break;
        }
        if best_spec.get(k).is_none() {
            let cand = best_spec.with(k, v);
            try_spec(&cand, &mut best_spec, &mut best, &mut attempts);
        }
    }
    // 2. property-specific single steps
    let extra = best.hints.extra.clone();
    for (k, v) in extra {
        if out_of_time(&t0, attempts) {
            break;
        }
        let cand = best_spec.with(&k, v);
        try_spec(&cand, &mut best_spec, &mut best, &mut attempts);
    }
    // 3. faults: keep a subset (drop one at a time)
    {
        let n = best.hints.n_faults;
        let mut keep: Vec<usize> = if best_spec.get("keepf").is_some() { best_spec.list("keepf") } else { (0..n).collect() };
        let mut i = 0;
        while i < keep.len() && keep.len() > 1 && !out_of_time(&t0, attempts) {
            let mut k2 = keep.clone();
            k2.remove(i);
            let cand = best_spec.with_list("keepf", &k2);
            if try_spec(&cand, &mut best_spec, &mut best, &mut attempts) {
                keep = k2;
            } else {
                i += 1;
            }
        }
    }
    // 4. program ops: ddmin-style chunk removal
    {
        let n = first.hints.n_ops;
        let mut dropped: Vec<usize> = Vec::new();
        let mut chunk = (n / 2).max(1);
        while chunk >= 1 && !out_of_time(&t0, attempts) {
            let mut start = 0;
            while start < n && !out_of_time(&t0, attempts) {
                let cand_drop: Vec<usize> = (start..(start + chunk).min(n)).filter(|i| !dropped.contains(i)).collect();
                if !cand_drop.is_empty() {
                    let mut d2 = dropped.clone();
                    d2.extend(cand_drop);
                    d2.sort_unstable();
                    let cand = best_spec.with_list("drop", &d2);
                    if try_spec(&cand, &mut best_spec, &mut best, &mut attempts) {
                        dropped = d2;
                    }
                }
                start += chunk;
            }
            if chunk == 1 {
                break;
            }
            chunk /= 2;
        }
    }
    // 5. a smaller schedule-decision budget (binary search) if still scheduled randomly
    if !best_spec.flag("canon_env") && best_spec.get("sb").is_none() {
        let mut hi: u64 = 1 << 20;
        let mut lo: u64 = 0;
        // find some finite budget that still fails
        let cand = best_spec.with("sb", hi.to_string());
        if try_spec(&cand, &mut best_spec, &mut best, &mut attempts) {
            while lo + 1 < hi && !out_of_time(&t0, attempts) {
                let mid = (lo + hi) / 2;
                let cand = best_spec.with("sb", mid.to_string());
                if try_spec(&cand, &mut best_spec, &mut best, &mut attempts) {
                    hi = mid;
                } else {
                    lo = mid;
                }
            }
            let cand = best_spec.with("sb", hi.to_string());
            try_spec(&cand, &mut best_spec, &mut best, &mut attempts);
        }
    }
    (best_spec, best, attempts)
}

pub fn sched_stats_json(s: &SchedStats) -> J {
    J::obj(vec![
        ("parallel_calls", J::U(s.calls)),
        ("joins", J::U(s.joins)),
        ("tasks", J::U(s.tasks)),
        ("decisions", J::U(s.decisions)),
        ("noncanonical_decisions", J::U(s.noncanonical)),
        ("distinct_interleaving_ids", J::U(s.interleavings.len() as u64)),
        ("interleaving_ids", J::A(s.interleavings.iter().take(200_000).map(|x| J::S(format!("{:016x}", x))).collect())),
        ("call_site_shapes", J::O(s.shapes.iter().map(|(k, v)| (k.clone(), J::U(*v))).collect())),
        ("pool_sizes_used", J::O(s.pools.iter().map(|(k, v)| (k.to_string(), J::U(*v))).collect())),
    ])
}

pub fn stats_json(st: &Stats, wall: f64) -> J {
    let sched = SCHED.with(|s| s.borrow().clone());
    J::obj(vec![
        ("runs", J::U(st.runs)),
        ("evaluations", J::U(st.evaluations)),
        ("steps", J::U(st.steps)),
        ("nontrivial", J::A(st.nontrivial.iter().map(|x| J::S(format!("{:016x}", x))).collect())),
        ("faults", J::O(st.faults.iter().map(|(k, v)| (k.clone(), J::U(*v))).collect())),
        ("probes", J::O(st.probes.iter().map(|(k, v)| (k.clone(), J::U(*v))).collect())),
        ("ops_used", J::O(st.ops_used.iter().map(|(k, v)| (k.clone(), J::U(*v))).collect())),
        ("samples", J::A(st.samples.clone())),
        ("notes", J::O(st.notes.iter().map(|(k, v)| (k.clone(), J::S(v.clone()))).collect())),
        (
            "findings",
            J::A(st
                .findings
                .iter()
                .map(|(k, (n, d, r))| J::obj(vec![("key", J::s(k.clone())), ("count", J::U(*n)), ("detail", J::s(d.clone())), ("run", J::U(*r))]))
                .collect()),
        ),
        ("runlogs", J::O(st.runlogs.iter().map(|(k, v)| (k.to_string(), J::S(format!("{:016x}", v)))).collect())),
        ("sched", sched_stats_json(&sched)),
        ("hash_draws", J::U(crate::seams::hash_draws())),
        ("wall_s", J::F(wall)),
    ])
}

//! The simulated deployment: ceremony (public parameters), key-generation
//! node (three compile routes), disk (byte strings), prover node, verifier
//! node.  All library calls go through here so that every one of them runs
//! under a simulator-chosen environment (`EnvCfg`).

use std::cell::RefCell;
use std::sync::Arc;

use dusk_bytes::Serializable;
use dusk_plonk::prelude::*;

use crate::program::{ProgCircuit, Program, Sc, Tape};
use crate::seams::{under, EnvCfg, ScriptedRng};

// ------------------------------------------------------------------ ceremony

thread_local! {
    /// master parameters of this process: (raw bytes, number of G1 powers)
    static MASTER: RefCell<Option<(Vec<u8>, usize)>> = const { RefCell::new(None) };
}

const CEREMONY_SEED: u64 = 0xC3E3_0001;
const OPENING_KEY_SIZE: usize = 48 + 96 * 2;
const RAW_G1: usize = 97;

fn ensure_master(powers: usize) {
    let have = MASTER.with(|m| m.borrow().as_ref().map(|(_, n)| *n).unwrap_or(0));
    if have >= powers {
        return;
    }
    // round up so that growth is rare
    let want = powers.next_power_of_two().max(1 << 9) + 8;
    let mut rng = ScriptedRng::new(CEREMONY_SEED);
    let pp = under(&EnvCfg::canonical(), || PublicParameters::setup(want - 7, &mut rng)).expect("setup");
    let raw = pp.to_raw_var_bytes();
    MASTER.with(|m| *m.borrow_mut() = Some((raw, want)));
}

/// Public parameters equal to `PublicParameters::setup(max_degree, ceremony rng)`:
/// the first `max_degree + 7` powers of the ceremony's secret.
pub fn pp_with_degree(max_degree: usize) -> PublicParameters {
    let powers = max_degree + 7;
    ensure_master(powers);
    MASTER.with(|m| {
        let m = m.borrow();
        let (raw, _) = m.as_ref().unwrap();
        let mut bytes = Vec::with_capacity(OPENING_KEY_SIZE + 8 + powers * RAW_G1);
        bytes.extend_from_slice(&raw[..OPENING_KEY_SIZE]);
        bytes.extend_from_slice(&(powers as u64).to_le_bytes());
        let start = OPENING_KEY_SIZE + 8;
        bytes.extend_from_slice(&raw[start..start + powers * RAW_G1]);
        // SAFETY (API contract): the bytes are a prefix of bytes this library produced.
        unsafe { PublicParameters::from_slice_unchecked(&bytes) }
    })
}

/// Smallest `setup` degree that admits a circuit with `constraints` gates.
pub fn min_degree_for(constraints: usize) -> usize {
    (constraints + 6).next_power_of_two()
}

// ------------------------------------------------------------ key generation

#[derive(Clone, Copy, Debug, PartialEq, Eq)]
pub enum Route {
    WithCircuit,
    Default,
    Compressed,
}

pub const ROUTES: [Route; 3] = [Route::WithCircuit, Route::Default, Route::Compressed];

pub fn compress(prog: &Arc<Program>, env: &EnvCfg) -> Result<Vec<u8>, Error> {
    crate::program::set_current(Some(prog.clone()));
    let r = under(env, ProgCircuit::compress);
    crate::program::set_current(None);
    r
}

pub fn compile(
    pp: &PublicParameters,
    label: &[u8],
    prog: &Arc<Program>,
    route: Route,
    env: &EnvCfg,
) -> Result<(Prover, Verifier), Error> {
    match route {
        Route::WithCircuit => {
            let c = ProgCircuit { prog: prog.clone(), tape: Tape::default() };
            under(env, || Compiler::compile_with_circuit(pp, label, &c))
        }
        Route::Default => {
            crate::program::set_current(Some(prog.clone()));
            let r = under(env, || Compiler::compile::<ProgCircuit>(pp, label));
            crate::program::set_current(None);
            r
        }
        Route::Compressed => {
            let bytes = compress(prog, env)?;
            under(env, || Compiler::compile_with_compressed(pp, label, &bytes))
        }
    }
}

// -------------------------------------------------------------------- prover

pub fn prove(
    prover: &Prover,
    prog: &Arc<Program>,
    tape: &Tape,
    rng: &mut ScriptedRng,
    version: PlonkVersion,
    env: &EnvCfg,
) -> Result<(Proof, Vec<Sc>), Error> {
    let c = ProgCircuit { prog: prog.clone(), tape: tape.clone() };
    under(env, || prover.prove_with_version(rng, &c, version))
}

pub fn verify(
    verifier: &Verifier,
    proof: &Proof,
    pi: &[Sc],
    version: PlonkVersion,
    env: &EnvCfg,
) -> Result<(), Error> {
    under(env, || verifier.verify_with_version(proof, pi, version))
}

pub fn proof_bytes(p: &Proof) -> Vec<u8> {
    p.to_bytes().to_vec()
}

pub fn version_name(v: PlonkVersion) -> &'static str {
    match v {
        PlonkVersion::V1 => "V1",
        PlonkVersion::V2 => "V2",
        PlonkVersion::V3 => "V3",
        _ => "V?",
    }
}

pub fn err_name(e: &Error) -> String {
    let s = format!("{:?}", e);
    s.split(|c: char| !c.is_alphanumeric() && c != '_').next().unwrap_or("").to_string()
}

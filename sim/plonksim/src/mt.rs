//! E2 — concurrent callers on shared keys under shuttle's controlled scheduler
//! (C18: "concurrent calls on shared keys from several threads return what the
//! same calls return sequentially").
//!
//! K caller threads are shuttle threads over one shared `Prover` / `Verifier`.
//! Scheduling points: the transcript-label cache mutex (shuttle's, through the
//! `dusk_plonk_verif_shuttle` cfg) and every rayon-task boundary (sim-rayon's
//! yield hook is `shuttle::thread::sleep(0)` here).  Each caller's schedule
//! stream is derived from (run seed, caller index) and is therefore independent
//! of the interleaving.  Every result is compared with the result of the same
//! call executed sequentially beforehand.  Failing schedules are persisted by
//! shuttle and replayed with `ReplayScheduler`.

use std::panic::{catch_unwind, AssertUnwindSafe};
use std::sync::Arc;
use std::time::Instant;

use dusk_plonk::prelude::*;
use shuttle::scheduler::{PctScheduler, RandomScheduler};
use shuttle::{Config, FailurePersistence, MaxSteps, Runner};

use crate::channel::Msg;
use crate::deploy::{self, proof_bytes, Route};
use crate::framework::{RunCtx, Spec, Stats};
use crate::json::J;
use crate::prng::{derive, tag, Rng};
use crate::program::{Program, Tape};
use crate::scenario::{gen_scenario, ScenCfg, SizeClass};
use crate::seams::{EnvCfg, ScriptedRng, POOL_MENU};

#[derive(Clone, Debug)]
enum Call {
    /// (RNG script, which of the instances: callers prove *different* instances on the shared prover)
    Prove(u64, usize),
    Verify(usize),
    ProverBytes,
    VerifierBytes,
    Compile(Vec<u8>),
    /// A label nobody has used before in this process (cold label cache): compile, prove, verify,
    /// mirrored on RM-verify (which never consults the cache).  Kind 0: one label shared by every
    /// caller of the iteration (all miss at once), 1: unique per caller, 2: siblings of the shared
    /// label (same length, same first 40 bytes, last byte differs).  Resolved at run time.
    FreshKind(u8),
    Fresh(Vec<u8>),
    /// the same calls on a second deployment that lives in the same process: another circuit with
    /// the same label and constraint count (or the same circuit padded to another size)
    Prove2(u64),
    Verify2(usize),
}

#[derive(Clone, Debug, PartialEq)]
enum Outcome {
    Bytes(Vec<u8>),
    Verdict(bool),
}

struct Second {
    prover: Prover,
    verifier: Verifier,
    prog: Arc<Program>,
    tape: Tape,
    msgs: Vec<Msg>,
}

struct Shared {
    second: Option<Second>,
    prover: Prover,
    verifier: Verifier,
    pp: PublicParameters,
    prog: Arc<Program>,
    tape: Tape,
    msgs: Vec<Msg>,
    plans: Vec<Vec<(Call, Outcome, EnvCfg)>>,
    /// further honest instances of the same circuit (other witness and public-input values)
    tapes: Vec<Tape>,
    label: Vec<u8>,
    run: u64,
}

fn exec(sh: &Shared, call: &Call, env: &EnvCfg) -> Outcome {
    match call {
        Call::Prove(seed, inst) => {
            let mut rng = ScriptedRng::new(*seed);
            let tape = if *inst == 0 { &sh.tape } else { &sh.tapes[(*inst - 1) % sh.tapes.len()] };
            match deploy::prove(&sh.prover, &sh.prog, tape, &mut rng, PlonkVersion::V3, env) {
                Ok((p, _)) => Outcome::Bytes(proof_bytes(&p)),
                Err(e) => Outcome::Bytes(format!("{:?}", e).into_bytes()),
            }
        }
        Call::Verify(i) => {
            use dusk_bytes::DeserializableSlice;
            let m = &sh.msgs[*i];
            let ok = match Proof::from_slice(&m.proof) {
                Ok(p) => deploy::verify(&sh.verifier, &p, &m.pi, m.version, env).is_ok(),
                Err(_) => false,
            };
            Outcome::Verdict(ok)
        }
        Call::Prove2(seed) => {
            let s2 = sh.second.as_ref().expect("second deployment");
            let mut rng = ScriptedRng::new(*seed);
            match deploy::prove(&s2.prover, &s2.prog, &s2.tape, &mut rng, PlonkVersion::V3, env) {
                Ok((p, _)) => Outcome::Bytes(proof_bytes(&p)),
                Err(e) => Outcome::Bytes(format!("{:?}", e).into_bytes()),
            }
        }
        Call::Verify2(i) => {
            use dusk_bytes::DeserializableSlice;
            let s2 = sh.second.as_ref().expect("second deployment");
            let m = &s2.msgs[*i % s2.msgs.len()];
            let ok = match Proof::from_slice(&m.proof) {
                Ok(p) => deploy::verify(&s2.verifier, &p, &m.pi, m.version, env).is_ok(),
                Err(_) => false,
            };
            Outcome::Verdict(ok)
        }
        Call::ProverBytes => Outcome::Bytes(crate::seams::under(env, || sh.prover.to_bytes())),
        Call::VerifierBytes => Outcome::Bytes(crate::seams::under(env, || sh.verifier.to_bytes())),
        Call::Compile(label) => match deploy::compile(&sh.pp, label, &sh.prog, Route::WithCircuit, env) {
            Ok((_, v)) => Outcome::Bytes(v.to_bytes()),
            Err(e) => Outcome::Bytes(format!("{:?}", e).into_bytes()),
        },
        Call::FreshKind(_) => unreachable!("resolved by the caller thread"),
        Call::Fresh(label) => {
            let (p, v) = match deploy::compile(&sh.pp, label, &sh.prog, Route::WithCircuit, env) {
                Ok(x) => x,
                Err(e) => return Outcome::Bytes(format!("{:?}", e).into_bytes()),
            };
            let mut rng = ScriptedRng::new(0xF5E5 ^ crate::prng::digest(label));
            let (proof, pi) = match deploy::prove(&p, &sh.prog, &sh.tape, &mut rng, PlonkVersion::V3, env) {
                Ok(x) => x,
                Err(e) => return Outcome::Bytes(format!("prove {:?}", e).into_bytes()),
            };
            let vb = v.to_bytes();
            let pb = proof_bytes(&proof);
            let real = deploy::verify(&v, &proof, &pi, PlonkVersion::V3, env).is_ok();
            let rm = crate::rm_verify::verify(&vb, &pb, &pi, crate::rm_verify::Version::V3).accepted();
            assert!(real, "I-determ/label-cache: an honest proof under a fresh label {:02x?} is rejected by its own verifier", label);
            assert!(rm, "I-determ/label-cache: the proof made under a fresh label {:02x?} is not a proof for that label (reference transcript)", label);
            let mut out = vb;
            out.extend_from_slice(&pb);
            Outcome::Bytes(out)
        }
    }
}

fn fresh_label(base: &[u8], run: u64, it: u64, caller: usize, kind: u8) -> Vec<u8> {
    // >= 40 common bytes, then the iteration, then the distinguishing tail
    let mut l = base.to_vec();
    l.extend_from_slice(&[0xF5; 40]);
    l.extend_from_slice(&run.to_le_bytes());
    l.extend_from_slice(&it.to_le_bytes());
    l.push(match kind {
        0 => 0,
        1 => 0x40 + caller as u8,
        _ => 1 + (caller as u8 % 3),
    });
    l
}

fn task_key() -> usize {
    shuttle::current::get_current_task().map(|t| usize::from(t) + 1).unwrap_or(0)
}

/// Rayon-task boundaries as scheduling points: on in two of three iterations.  With them off the
/// only scheduling points are the library's own synchronisation operations, so the scheduler's
/// choices are not diluted over hundreds of task boundaries and the few interleavings of the
/// lock operations themselves are actually enumerated.
static RAYON_YIELDS: std::sync::atomic::AtomicBool = std::sync::atomic::AtomicBool::new(true);

fn yield_point() {
    if !RAYON_YIELDS.load(std::sync::atomic::Ordering::Relaxed) {
        return;
    }
    if shuttle::current::get_current_task().is_some() {
        shuttle::thread::sleep(std::time::Duration::from_millis(0));
    }
}

pub fn install_seams() {
    rayon::sim::set_key_fn(task_key);
    rayon::sim::set_yield_fn(yield_point);
}

/// The library's label cache is a shuttle mutex in this build, so every library
/// call has to happen inside a shuttle execution: the sequential reference
/// results are computed in a one-task execution of their own.
fn build_shared(seed: u64, run: u64, thorough: bool, st: &mut Stats) -> Option<(Arc<Shared>, String)> {
    let slot: Arc<std::sync::Mutex<Option<(Option<(Arc<Shared>, String)>, Stats)>>> = Arc::new(std::sync::Mutex::new(None));
    let slot2 = slot.clone();
    Runner::new(RandomScheduler::new_from_seed(1, 1), config(None)).run(move || {
        let mut st = Stats::default();
        let r = build_shared_inner(seed, run, thorough, &mut st);
        *slot2.lock().unwrap() = Some((r, st));
    });
    let (r, st2) = slot.lock().unwrap().take()?;
    for (k, v) in st2.ops_used {
        *st.ops_used.entry(k).or_insert(0) += v;
    }
    r
}

fn build_shared_inner(seed: u64, run: u64, thorough: bool, st: &mut Stats) -> Option<(Arc<Shared>, String)> {
    let mut ctx = RunCtx { prop: "C18", seed, run, thorough, spec: Spec::default(), st, hints: Default::default(), explicit: Vec::new() };
    let mut w = Rng::new(derive(seed, &[tag("C18-mt"), run, tag("workload")]));
    let mut sc = gen_scenario(&mut ctx, &mut w, &ScenCfg { class: SizeClass::Tiny, heavy: false, raw: true, exact_target: false, max_ops: 12 });
    // storms: every caller starts with the same kind of call, so that several callers are inside the
    // same library code at once.  0: none, 1: fresh labels (cold label cache), 2: proofs of
    // different instances - other witness and public-input values - on the shared prover
    let storm_kind = w.below(3);
    if storm_kind == 2 {
        // the instances must differ in their public inputs: make sure the circuit has some
        let mut p = (*sc.prog).clone();
        for _ in 0..1 + w.usize(3) {
            p.ops.push(crate::program::Op::Public(crate::program::Kind::Any));
        }
        if let Some(c) = crate::program::count_constraints(&p) {
            let prog = Arc::new(p);
            let mut tr = Rng::new(w.u64());
            sc.tape = crate::program::honest_tape(&prog, &mut tr);
            sc.prog = prog;
            sc.constraints = c;
            sc.degree = sc.degree.max(deploy::min_degree_for(c));
        }
    }
    let canon = EnvCfg::canonical();
    let pp = deploy::pp_with_degree(sc.degree);
    let (prover, verifier) = deploy::compile(&pp, &sc.label, &sc.prog, Route::WithCircuit, &canon).ok()?;
    // messages to verify: honest and corrupted
    let mut msgs = Vec::new();
    for k in 0..2u64 {
        let mut rng = ScriptedRng::new(sc.rng_seed ^ k);
        let (p, pi) = deploy::prove(&prover, &sc.prog, &sc.tape, &mut rng, PlonkVersion::V3, &canon).ok()?;
        let mut m = Msg { proof: proof_bytes(&p), pi, version: PlonkVersion::V3 };
        if k == 1 {
            let bit = w.usize(m.proof.len() * 8);
            m.proof[bit / 8] ^= 1 << (bit % 8);
        }
        msgs.push(m);
    }
    // a second deployment in the same process (two thirds of the scenarios)
    let second = if w.chance(2, 3) {
        let prog2 = if w.chance(1, 2) {
            crate::history::same_size_twin(&sc, &mut w)
        } else {
            let mut p = (*sc.prog).clone();
            p.ops.push(crate::program::Op::Filler(*w.pick(&[1usize, 8, 9, 40])));
            Some(p)
        };
        prog2.and_then(|p2| {
            let c2 = crate::program::count_constraints(&p2)?;
            let prog2 = Arc::new(p2);
            let pp2 = deploy::pp_with_degree(deploy::min_degree_for(c2).max(sc.degree));
            let (prover2, verifier2) = deploy::compile(&pp2, &sc.label, &prog2, Route::WithCircuit, &canon).ok()?;
            let mut tr = Rng::new(w.u64());
            let tape2 = crate::program::honest_tape(&prog2, &mut tr);
            let mut rng = ScriptedRng::new(sc.rng_seed ^ 0x22);
            let (p, pi) = deploy::prove(&prover2, &prog2, &tape2, &mut rng, PlonkVersion::V3, &canon).ok()?;
            let good = Msg { proof: proof_bytes(&p), pi, version: PlonkVersion::V3 };
            // the first deployment's honest proof delivered to the second verifier: a reject
            let mut cross = msgs[0].clone();
            cross.pi.resize(good.pi.len(), BlsScalar::zero());
            Some(Second { prover: prover2, verifier: verifier2, prog: prog2, tape: tape2, msgs: vec![good, cross] })
        })
    } else {
        None
    };
    let has_second = second.is_some();
    let callers = if thorough { 2 + w.usize(15) } else { 2 + w.usize(3) };
    let tapes: Vec<Tape> = (0..3)
        .map(|_| {
            let mut tr = Rng::new(w.u64());
            crate::program::honest_tape(&sc.prog, &mut tr)
        })
        .collect();
    let mut sh = Shared { tapes, second, prover, verifier, pp, prog: sc.prog.clone(), tape: sc.tape.clone(), msgs, plans: Vec::new(), label: sc.label.clone(), run };
    let mut plans = Vec::new();
    for c in 0..callers {
        let n_calls = 1 + w.usize(3);
        let mut plan = Vec::new();
        for j in 0..n_calls {
            let call = if storm_kind == 1 && j == 0 {
                Call::FreshKind([0u8, 0, 1, 2][w.usize(4)])
            } else if storm_kind == 2 && j == 0 {
                // caller c proves instance c (0 = the deployment's own tape, 1.. = the variants)
                Call::Prove(sc.rng_seed ^ w.below(2), c % 4)
            } else {
                match w.below(10) {
                0..=2 => Call::Prove(sc.rng_seed ^ w.below(3), w.usize(4)),
                3..=4 => Call::Verify(w.usize(2)),
                5 => Call::ProverBytes,
                6 => Call::VerifierBytes,
                8 => Call::FreshKind(w.below(3) as u8),
                9 if has_second => {
                    if w.chance(1, 2) {
                        Call::Prove2(sc.rng_seed ^ 0x22 ^ w.below(2))
                    } else {
                        Call::Verify2(w.usize(2))
                    }
                }
                9 => Call::FreshKind(w.below(3) as u8),
                _ => {
                    let mut l = sc.label.clone();
                    if w.chance(1, 2) {
                        l.push(w.below(4) as u8);
                    }
                    Call::Compile(l)
                }
                }
            };
            // sequential result of the same call (fresh-label calls are compared after the join instead:
            // executing them beforehand would warm the cache they are meant to find cold)
            let expected = if matches!(call, Call::FreshKind(_)) { Outcome::Verdict(true) } else { exec(&sh, &call, &canon) };
            // the caller's own environment: derived from (run seed, caller index), independent of the interleaving
            let mut e = Rng::new(derive(seed, &[tag("C18-mt"), run, c as u64, plan.len() as u64]));
            let env = EnvCfg { threads: *e.pick(POOL_MENU), sched_seed: e.u64() | 1, sched_budget: u64::MAX, hash_seed: e.u64() | 1 };
            plan.push((call, expected, env));
        }
        plans.push(plan);
    }
    sh.plans = plans;
    let desc = format!(
        "program={} constraints={} callers={} plans={:?}",
        crate::program::describe(&sc.prog),
        sc.constraints,
        callers,
        sh.plans.iter().map(|p| p.iter().map(|(c, _, e)| format!("{:?}@T{}", c, e.threads)).collect::<Vec<_>>()).collect::<Vec<_>>()
    );
    Some((Arc::new(sh), desc))
}

fn body(sh: Arc<Shared>, it: u64) {
    let mut handles = Vec::new();
    for (c, plan) in sh.plans.iter().enumerate() {
        let sh2 = sh.clone();
        let plan = plan.clone();
        handles.push(shuttle::thread::spawn(move || {
            let mut fresh: Vec<(Vec<u8>, Outcome)> = Vec::new();
            for (i, (call, expected, env)) in plan.iter().enumerate() {
                if let Call::FreshKind(k) = call {
                    let label = fresh_label(&sh2.label, sh2.run, it, c, *k);
                    let got = exec(&sh2, &Call::Fresh(label.clone()), env);
                    fresh.push((label, got));
                    continue;
                }
                let got = exec(&sh2, call, env);
                assert!(got == *expected, "I-determ: caller {} call {} ({:?}) returned something else than the same call sequentially", c, i, call);
            }
            fresh
        }));
    }
    let mut fresh: Vec<(Vec<u8>, Outcome)> = Vec::new();
    for h in handles {
        fresh.extend(h.join().expect("caller thread"));
    }
    // fresh-label calls: the same calls made sequentially afterwards must return the same bytes
    let canon = EnvCfg::canonical();
    for (label, got) in fresh {
        let again = exec(&sh, &Call::Fresh(label.clone()), &canon);
        assert!(again == got, "I-determ/label-cache: compile+prove under the fresh label {:02x?} returned something else concurrently than sequentially", label);
    }
}

fn run_iteration(sched_seed: u64, it: u64, use_pct: bool, sh: Arc<Shared>) {
    let s = derive(sched_seed, &[it]);
    RAYON_YIELDS.store(it % 3 != 1, std::sync::atomic::Ordering::Relaxed);
    if use_pct {
        Runner::new(PctScheduler::new_from_seed(s, 3, 1), config(None)).run(move || body(sh.clone(), it));
    } else {
        Runner::new(RandomScheduler::new_from_seed(s, 1), config(None)).run(move || body(sh.clone(), it));
    }
}

fn config(dir: Option<&str>) -> Config {
    let mut cfg = Config::new();
    cfg.stack_size = 16 << 20;
    cfg.max_steps = MaxSteps::None;
    cfg.silence_warnings = true;
    cfg.failure_persistence = match dir {
        Some(d) => FailurePersistence::File(Some(d.into())),
        None => FailurePersistence::None,
    };
    cfg
}

pub fn cmd_mt(seed: u64, thorough: bool, shard: (u64, u64), runs: u64, out: &str, replay_dir: &str, budget_s: f64) {
    install_seams();
    let t0 = Instant::now();
    let mut st = Stats::default();
    let mut violations: Vec<J> = Vec::new();
    let mut schedules = 0u64;
    let mut skipped = 0u64;
    let mut r = shard.0;
    while r < runs {
        if t0.elapsed().as_secs_f64() > budget_s {
            skipped += 1;
            r += shard.1;
            continue;
        }
        st.runs += 1;
        let (sh, desc) = match build_shared(seed, r, thorough, &mut st) {
            Some(x) => x,
            None => {
                r += shard.1;
                continue;
            }
        };
        let iterations: u64 = if thorough { 24 } else { 10 };
        let sched_seed = derive(seed, &[tag("C18-mt"), r, tag("shuttle")]);
        let use_pct = r % 2 == 1;
        let n_calls: usize = sh.plans.iter().map(|p| p.len()).sum();
        // one shuttle execution per iteration, each with its own derived seed: a failure is then
        // identified by (run, iteration) and replays from that seed alone
        let mut failed_iter: Option<u64> = None;
        for it in 0..iterations {
            let sh2 = sh.clone();
            let res = catch_unwind(AssertUnwindSafe(|| run_iteration(sched_seed, it, use_pct, sh2)));
            match res {
                Ok(()) => {
                    schedules += 1;
                    st.eval(derive(sched_seed, &[it]), true);
                    st.steps += n_calls as u64;
                }
                Err(_) => {
                    failed_iter = Some(it);
                    break;
                }
            }
        }
        match failed_iter {
            None => {
                st.probe(if use_pct { "shuttle_pct_runs" } else { "shuttle_random_runs" });
                st.probe_n("concurrent_callers", sh.plans.len() as u64);
            }
            Some(it) => {
                let path = format!("{}/C18-{}-{}-mt.json", replay_dir, seed, r);
                let file = J::obj(vec![
                    ("property", J::s("C18")),
                    ("invariant", J::s("I-determ/concurrent")),
                    ("engine", J::s("E2-plonksim-mt(shuttle)")),
                    ("seed", J::U(seed)),
                    ("run", J::U(r)),
                    ("tier", J::s(if thorough { "thorough" } else { "quick" })),
                    ("spec", J::s("")),
                    ("shuttle_iteration", J::U(it)),
                    ("shuttle_seed", J::U(derive(sched_seed, &[it]))),
                    ("scheduler", J::s(if use_pct { "pct(depth 3)" } else { "random" })),
                    ("detail", J::s("a concurrent caller's result differs from the sequential result of the same call, or a caller panicked")),
                    ("scenario", J::s(desc.clone())),
                ]);
                let _ = std::fs::create_dir_all(replay_dir);
                let _ = std::fs::write(&path, file.render());
                violations.push(J::obj(vec![
                    ("run", J::U(r)),
                    ("iteration", J::U(it)),
                    ("invariant", J::s("I-determ/concurrent")),
                    ("detail", J::s(format!("concurrent callers diverge from sequential results; {}", desc))),
                    ("replay", J::s(path)),
                ]));
                // a failed execution leaves the library's static shuttle mutex in the state of the
                // aborted tasks; nothing more can be executed in this process
                skipped += (runs.saturating_sub(r + 1) + shard.1 - 1) / shard.1;
                break;
            }
        }
        if st.samples.len() < 4 {
            st.sample(J::obj(vec![("run", J::U(r)), ("engine", J::s("E2 shuttle")), ("scenario", J::s(desc))]));
        }
        r += shard.1;
    }
    let mut j = crate::framework::stats_json(&st, t0.elapsed().as_secs_f64());
    j.push("property", J::s("C18"));
    j.push("seed", J::U(seed));
    j.push("shard", J::s(format!("{}/{}", shard.0, shard.1)));
    j.push("skipped_for_budget", J::U(skipped));
    j.push("violations", J::A(violations));
    j.push("engine", J::s("E2-plonksim-mt(shuttle)"));
    j.push("shuttle_schedules", J::U(schedules));
    std::fs::write(out, j.render()).expect("write");
}

/// Replay one (run, iteration); exit 1 if it fails again.
pub fn cmd_mt_replay(seed: u64, run: u64, thorough: bool, it: u64) {
    install_seams();
    let mut st = Stats::default();
    let (sh, _) = match build_shared(seed, run, thorough, &mut st) {
        Some(x) => x,
        None => std::process::exit(2),
    };
    let sched_seed = derive(seed, &[tag("C18-mt"), run, tag("shuttle")]);
    let use_pct = run % 2 == 1;
    let res = catch_unwind(AssertUnwindSafe(|| run_iteration(sched_seed, it, use_pct, sh)));
    match res {
        Ok(_) => {
            println!("REPLAY clean");
            std::process::exit(0)
        }
        Err(_) => {
            println!("REPLAY violation invariant=I-determ/concurrent");
            std::process::exit(1)
        }
    }
}

/// Self-check: the scenario itself must be schedule-deterministic.
pub fn cmd_mt_selfcheck(seed: u64) {
    install_seams();
    let mut st = Stats::default();
    for r in 0..4 {
        if let Some((sh, _)) = build_shared(seed, r, false, &mut st) {
            let sh2 = sh.clone();
            shuttle::check_uncontrolled_nondeterminism(move || body(sh2.clone(), 1 << 40), 5);
        }
    }
    println!("SELFCHECK ok");
}

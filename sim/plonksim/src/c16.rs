//! C16 — serialization round trips.  A node *restart* discards the in-memory
//! object and reloads it from the bytes on the simulated disk (no disk faults
//! in this class).  I-durable: encode(decode(b)) == b; a reloaded prover fed
//! the same RNG script yields the same proof; a reloaded verifier returns the
//! same verdict as the original on every message of the run's corpus (accepts
//! and rejects); reloaded parameters compile to the same keys; every proof
//! string the decoder accepts re-encodes to itself.

use dusk_bytes::{DeserializableSlice, Serializable};
use dusk_plonk::prelude::*;

use crate::channel::{apply, random_pi_fault, random_proof_fault, ChanFault, Msg, PROOF_SIZE};
use crate::deploy::{self, proof_bytes, ROUTES};
use crate::framework::{RunCtx, Violation};
use crate::json::J;
use crate::mirror::{deliver, VerifierNode};
use crate::prng::digest;
use crate::scenario::{gen_scenario, pick_class, scenario_sig, ScenCfg, SizeClass};
use crate::seams::{guarded, under, ScriptedRng};

pub fn run(ctx: &mut RunCtx) -> Result<(), Violation> {
    let mut w = ctx.stream("workload");
    let mut s = ctx.stream("sched");
    let mut f = ctx.stream("faults");
    let class = if ctx.thorough { pick_class(&mut w, [8, 4, 3, 1]) } else { pick_class(&mut w, [10, 3, 1, 0]) };
    let sc = gen_scenario(ctx, &mut w, &ScenCfg { class, heavy: false, raw: true, exact_target: true, max_ops: 24 });
    let sig = scenario_sig(&sc);
    let route = *w.pick(&ROUTES);
    let pp = deploy::pp_with_degree(sc.degree);
    let env = ctx.env(&mut s);
    let (prover, verifier) = match deploy::compile(&pp, &sc.label, &sc.prog, route, &env) {
        Ok(k) => k,
        Err(_) => return Ok(()),
    };
    ctx.st.steps += 1;
    let fail = |what: String| Violation::new("I-durable", what);

    // ---- disk: write, restart, reload
    let prover_bytes = prover.to_bytes();
    let verifier_bytes = verifier.to_bytes();
    if prover.serialized_size() != prover_bytes.len() {
        return Err(fail(format!("Prover::serialized_size {} != encoded length {}", prover.serialized_size(), prover_bytes.len())));
    }
    if verifier.serialized_size() != verifier_bytes.len() {
        return Err(fail(format!("Verifier::serialized_size {} != encoded length {}", verifier.serialized_size(), verifier_bytes.len())));
    }
    let env_r = ctx.env(&mut s);
    let prover2 = match guarded(|| under(&env_r, || Prover::try_from_bytes(&prover_bytes))) {
        Ok(Ok(p)) => p,
        Ok(Err(e)) => return Err(fail(format!("a prover does not decode from its own encoding: {:?}", e))),
        Err(p) => return Err(Violation::new("panic", format!("Prover::try_from_bytes panicked on a valid encoding: {}", p))),
    };
    let verifier2 = match guarded(|| under(&env_r, || Verifier::try_from_bytes(&verifier_bytes))) {
        Ok(Ok(v)) => v,
        Ok(Err(e)) => return Err(fail(format!("a verifier does not decode from its own encoding: {:?}", e))),
        Err(p) => return Err(Violation::new("panic", format!("Verifier::try_from_bytes panicked on a valid encoding: {}", p))),
    };
    ctx.st.fault("restart.prover");
    ctx.st.fault("restart.verifier");
    ctx.st.steps += 2;
    ctx.st.eval(sig ^ 0xa1, true);
    if prover2.to_bytes() != prover_bytes {
        return Err(fail("decode-then-encode changes the prover bytes".into()));
    }
    ctx.st.eval(sig ^ 0xa2, true);
    if verifier2.to_bytes() != verifier_bytes {
        return Err(fail("decode-then-encode changes the verifier bytes".into()));
    }

    // ---- a reloaded prover yields the same proof from the same randomness
    let mut corpus: Vec<Msg> = Vec::new();
    let n_proofs = if class == SizeClass::Tiny { 2 } else { 1 };
    for k in 0..n_proofs {
        let version = if k == 1 { PlonkVersion::V2 } else { PlonkVersion::V3 };
        let env_a = ctx.env(&mut s);
        let env_b = ctx.env(&mut s);
        let mut rng_a = ScriptedRng::new(sc.rng_seed ^ k);
        let mut rng_b = ScriptedRng::new(sc.rng_seed ^ k);
        let ra = deploy::prove(&prover, &sc.prog, &sc.tape, &mut rng_a, version, &env_a);
        let rb = deploy::prove(&prover2, &sc.prog, &sc.tape, &mut rng_b, version, &env_b);
        ctx.st.steps += 2;
        ctx.st.eval(sig ^ 0xa3 ^ k, true);
        match (ra, rb) {
            (Ok((pa, pia)), Ok((pb, pib))) => {
                if proof_bytes(&pa) != proof_bytes(&pb) || pia != pib {
                    return Err(fail(format!(
                        "original and reloaded prover produce different proofs from the same randomness ({} | {})",
                        env_a.describe(),
                        env_b.describe()
                    )));
                }
                // Proof round trip
                let b = proof_bytes(&pa);
                match Proof::from_slice(&b) {
                    Ok(p) => {
                        if p.to_bytes().to_vec() != b {
                            return Err(fail("decode-then-encode changes the proof bytes".into()));
                        }
                    }
                    Err(e) => return Err(fail(format!("a proof does not decode from its own encoding: {:?}", e))),
                }
                corpus.push(Msg { proof: b, pi: pia, version });
            }
            (Err(ea), Err(eb)) => {
                if deploy::err_name(&ea) != deploy::err_name(&eb) {
                    return Err(fail(format!("original prover fails with {:?}, reloaded with {:?}", ea, eb)));
                }
            }
            (a, b) => {
                return Err(fail(format!("original prover: {:?}; reloaded prover: {:?}", a.map(|_| "Ok").map_err(|e| deploy::err_name(&e)), b.map(|_| "Ok").map_err(|e| deploy::err_name(&e)))));
            }
        }
    }
    if corpus.is_empty() {
        return Ok(());
    }

    // ---- corpus: honest + corrupted messages; original and reloaded verifier agree on every one
    let honest = corpus.clone();
    let n_corrupt = if ctx.thorough { 40 } else { 16 };
    for i in 0..n_corrupt {
        let base = &honest[f.usize(honest.len())];
        let other = &honest[f.usize(honest.len())];
        let fault = if f.chance(2, 3) { random_proof_fault(&mut f) } else { random_pi_fault(&mut f) };
        let m = apply(base, &fault, Some(other), &mut f);
        ctx.st.fault(fault.kind());
        corpus.push(m);
        let _ = i;
    }
    let node_a = VerifierNode::new(verifier)?;
    let node_b = VerifierNode::new(verifier2)?;
    for (i, m) in corpus.iter().enumerate() {
        let env_a = ctx.env(&mut s);
        let env_b = ctx.env(&mut s);
        let da = deliver(ctx, &node_a, m, m.version, &env_a)?;
        let db = deliver(ctx, &node_b, m, m.version, &env_b)?;
        ctx.st.eval(sig ^ 0xb0 ^ (i as u64) << 8 ^ digest(&m.proof), true);
        if da.accepted() != db.accepted() {
            return Err(fail(format!("message {}: original verifier {:?}, reloaded verifier {:?}", i, da, db)));
        }
        if i < honest.len() && !da.accepted() {
            ctx.st.probe("honest_rejected(C01 territory)");
        }
        // proof canonicity: whatever the decoder accepts re-encodes to itself
        if m.proof.len() >= PROOF_SIZE {
            if let Ok(p) = Proof::from_slice(&m.proof) {
                ctx.st.probe("canonicity_checked_on_decodable_string");
                if p.to_bytes()[..] != m.proof[..PROOF_SIZE] {
                    return Err(Violation::new("I-canonical", format!("a 1008-byte string accepted by the proof decoder re-encodes differently (corpus message {})", i)));
                }
            }
        }
    }

    // ---- public parameters: reload through both encodings, compile to the same keys
    if class == SizeClass::Tiny && sc.degree <= 80 && !ctx.spec.flag("nopp") {
        ctx.hints.extra.push(("nopp".into(), "1".into()));
        let env_p = ctx.env(&mut s);
        let var = pp.to_var_bytes();
        let pp2 = match guarded(|| under(&env_p, || PublicParameters::from_slice(&var))) {
            Ok(Ok(p)) => p,
            Ok(Err(e)) => return Err(fail(format!("public parameters do not decode from their own encoding: {:?}", e))),
            Err(p) => return Err(Violation::new("panic", format!("PublicParameters::from_slice panicked on a valid encoding: {}", p))),
        };
        ctx.st.fault("restart.parameters");
        ctx.st.eval(sig ^ 0xc1, true);
        if pp2.to_var_bytes() != var {
            return Err(fail("decode-then-encode changes the public-parameter bytes".into()));
        }
        if pp2.to_raw_var_bytes() != pp.to_raw_var_bytes() {
            return Err(fail("reloaded parameters have a different raw encoding".into()));
        }
        if pp2.max_degree() != pp.max_degree() {
            return Err(fail("reloaded parameters have a different degree".into()));
        }
        // the raw encoding (trusted bytes, unchecked decoder): the same object again
        {
            let raw = pp.to_raw_var_bytes();
            // SAFETY (API contract): the bytes were produced by this library's own encoder.
            let pp3 = match guarded(|| unsafe { PublicParameters::from_slice_unchecked(&raw) }) {
                Ok(p) => p,
                Err(p) => return Err(Violation::new("panic", format!("PublicParameters::from_slice_unchecked panicked on the library's own raw encoding: {}", p))),
            };
            ctx.st.eval(sig ^ 0xc3, true);
            if pp3.to_raw_var_bytes() != raw || pp3.to_var_bytes() != var || pp3.max_degree() != pp.max_degree() {
                return Err(fail("parameters reloaded from their raw encoding encode differently".into()));
            }
        }
        let env_c = ctx.env(&mut s);
        match deploy::compile(&pp2, &sc.label, &sc.prog, route, &env_c) {
            Ok((p3, v3)) => {
                ctx.st.eval(sig ^ 0xc2, true);
                if p3.to_bytes() != prover_bytes || v3.to_bytes() != verifier_bytes {
                    return Err(fail("keys compiled from reloaded parameters differ".into()));
                }
            }
            Err(e) => return Err(fail(format!("reloaded parameters do not compile the circuit: {:?}", e))),
        }
    }
    // ---- larger parameter files (hundreds of points: whatever block-wise or pooled decoding exists
    // or is introduced is then in play), reloaded under a seeded pool and schedule
    if ctx.run % 40 == 13 && !ctx.spec.flag("nopp") {
        let big = deploy::pp_with_degree(300 + w.usize(500));
        let var = big.to_var_bytes();
        for _ in 0..2 {
            let env_b = ctx.env(&mut s);
            let again = match guarded(|| under(&env_b, || PublicParameters::from_slice(&var))) {
                Ok(Ok(p)) => p,
                Ok(Err(e)) => return Err(fail(format!("public parameters of {} bytes do not decode from their own encoding: {:?}", var.len(), e))),
                Err(p) => return Err(Violation::new("panic", format!("PublicParameters::from_slice panicked on a valid encoding: {}", p))),
            };
            ctx.st.fault("restart.parameters_large");
            ctx.st.eval(sig ^ 0xc4 ^ digest(env_b.describe().as_bytes()), true);
            if again.to_var_bytes() != var || again.to_raw_var_bytes() != big.to_raw_var_bytes() {
                return Err(fail(format!("decode-then-encode changes the bytes of a {}-point parameter file under [{}]", (var.len() - 240) / 48, env_b.describe())));
            }
        }
    }
    ctx.st.sample(J::obj(vec![
        ("run", J::U(ctx.run)),
        ("program", J::s(crate::program::describe(&sc.prog))),
        ("constraints", J::U(sc.constraints as u64)),
        ("route", J::s(format!("{:?}", route))),
        ("prover_bytes", J::U(prover_bytes.len() as u64)),
        ("verifier_bytes", J::U(verifier_bytes.len() as u64)),
        ("corpus_messages", J::U(corpus.len() as u64)),
    ]));
    let _ = ChanFault::PiClear;
    Ok(())
}

//! The simulator-owned seams: hash seeds (S2), caller RNG (S3), schedule (S1),
//! panic capture.

use std::cell::RefCell;
use std::panic::{catch_unwind, AssertUnwindSafe};
use std::sync::atomic::{AtomicU64, Ordering};

use rand_core::{CryptoRng, RngCore};

use crate::prng::{splitmix64, Rng};

// ----------------------------------------------------------------- S2: hash

static HASH_STATE: AtomicU64 = AtomicU64::new(0x1234_5678_9abc_def0);
static HASH_DRAWS: AtomicU64 = AtomicU64::new(0);

struct SimHashSource;

static FIXED: [[u64; 4]; 2] = [
    [0x243f_6a88_85a3_08d3, 0x1319_8a2e_0370_7344, 0xa409_3822_299f_31d0, 0x082e_fa98_ec4e_6c89],
    [0x4528_21e6_38d0_1377, 0xbe54_66cf_34e9_0c6c, 0xc0ac_29b7_c97c_50dd, 0x3f84_d5b5_b547_0917],
];

impl ahash::RandomSource for SimHashSource {
    fn get_fixed_seeds(&self) -> &'static [[u64; 4]; 2] {
        &FIXED
    }
    fn gen_hasher_seed(&self) -> usize {
        HASH_DRAWS.fetch_add(1, Ordering::SeqCst);
        let mut s = HASH_STATE.load(Ordering::SeqCst);
        let v = splitmix64(&mut s);
        HASH_STATE.store(s, Ordering::SeqCst);
        v as usize
    }
}

/// Must be called before the first hashbrown map is created.
pub fn install_hash_seam() {
    let r = ahash::RandomState::set_random_source(SimHashSource);
    assert!(r.is_ok(), "hash seam must be installed before any map exists");
}

/// Re-seed the `hash` stream: every map created afterwards gets its keys from
/// this stream, so iteration orders are a function of the run seed.
pub fn set_hash_stream(seed: u64) {
    HASH_STATE.store(seed, Ordering::SeqCst);
}

pub fn hash_draws() -> u64 {
    HASH_DRAWS.load(Ordering::SeqCst)
}

// ------------------------------------------------------------ S3: caller RNG

#[derive(Clone, Debug, PartialEq, Eq)]
pub enum RngCall {
    NextU32,
    NextU64,
    Fill(usize),
    TryFill(usize),
}

/// A scripted RNG: replays a deterministic byte stream, logs every call, and
/// can substitute the bytes of individual `fill_bytes` draws.
#[derive(Clone, Debug)]
pub struct ScriptedRng {
    stream: Rng,
    pub log: Vec<RngCall>,
    /// draw index -> bytes to hand out instead
    pub subst: Vec<(usize, Vec<u8>)>,
    /// every draw's bytes (for RM-mask)
    pub draws: Vec<Vec<u8>>,
}

thread_local! {
    static RNG_CALLS: std::cell::Cell<u64> = const { std::cell::Cell::new(0) };
}

/// Number of calls any scripted RNG of this thread has served since the last reset.
pub fn rng_calls() -> u64 {
    RNG_CALLS.with(|c| c.get())
}

pub fn reset_rng_calls() {
    RNG_CALLS.with(|c| c.set(0));
}

impl ScriptedRng {
    pub fn new(seed: u64) -> Self {
        ScriptedRng { stream: Rng::new(seed), log: Vec::new(), subst: Vec::new(), draws: Vec::new() }
    }
    pub fn with_subst(seed: u64, subst: Vec<(usize, Vec<u8>)>) -> Self {
        let mut r = Self::new(seed);
        r.subst = subst;
        r
    }
    fn produce(&mut self, dest: &mut [u8]) {
        RNG_CALLS.with(|c| c.set(c.get() + 1));
        let idx = self.draws.len();
        // always advance the underlying stream so substitution does not shift later draws
        self.stream.fill(dest);
        if let Some((_, b)) = self.subst.iter().find(|(i, _)| *i == idx) {
            let n = dest.len().min(b.len());
            dest[..n].copy_from_slice(&b[..n]);
        }
        self.draws.push(dest.to_vec());
    }
}

impl RngCore for ScriptedRng {
    fn next_u32(&mut self) -> u32 {
        self.log.push(RngCall::NextU32);
        let mut b = [0u8; 4];
        self.produce(&mut b);
        u32::from_le_bytes(b)
    }
    fn next_u64(&mut self) -> u64 {
        self.log.push(RngCall::NextU64);
        let mut b = [0u8; 8];
        self.produce(&mut b);
        u64::from_le_bytes(b)
    }
    fn fill_bytes(&mut self, dest: &mut [u8]) {
        self.log.push(RngCall::Fill(dest.len()));
        self.produce(dest);
    }
    fn try_fill_bytes(&mut self, dest: &mut [u8]) -> Result<(), rand_core::Error> {
        self.log.push(RngCall::TryFill(dest.len()));
        self.produce(dest);
        Ok(())
    }
}

impl CryptoRng for ScriptedRng {}

// ------------------------------------------------------------- S1: schedule

/// Configuration of the environment for one top-level operation.
#[derive(Clone, Debug, PartialEq, Eq)]
pub struct EnvCfg {
    /// pool size reported to the code; 0 = canonical (T=1, in-order)
    pub threads: usize,
    pub sched_seed: u64,
    /// number of random scheduling decisions before falling back to canonical
    pub sched_budget: u64,
    pub hash_seed: u64,
}

impl EnvCfg {
    pub fn canonical() -> Self {
        EnvCfg { threads: 0, sched_seed: 0, sched_budget: u64::MAX, hash_seed: 0 }
    }
    pub fn is_canonical(&self) -> bool {
        self.threads == 0 && self.hash_seed == 0
    }
    pub fn describe(&self) -> String {
        if self.threads == 0 {
            format!("T=canon hash={:x}", self.hash_seed)
        } else {
            format!(
                "T={} sched={:x}{} hash={:x}",
                self.threads,
                self.sched_seed,
                if self.sched_budget == u64::MAX { String::new() } else { format!("/{}", self.sched_budget) },
                self.hash_seed
            )
        }
    }
}

pub const POOL_MENU: &[usize] = &[1, 2, 3, 4, 5, 6, 7, 8, 9, 10, 11, 12, 13, 14, 15, 16, 17, 24, 31, 32, 33, 64, 100];

pub fn random_env(rng: &mut Rng) -> EnvCfg {
    EnvCfg {
        threads: *rng.pick(POOL_MENU),
        sched_seed: rng.u64() | 1,
        sched_budget: u64::MAX,
        hash_seed: rng.u64() | 1,
    }
}

/// Statistics of the schedule seam accumulated over a run.
#[derive(Clone, Debug, Default)]
pub struct SchedStats {
    pub calls: u64,
    pub joins: u64,
    pub tasks: u64,
    pub decisions: u64,
    pub noncanonical: u64,
    pub interleavings: std::collections::BTreeSet<u64>,
    pub shapes: std::collections::BTreeMap<String, u64>,
    pub pools: std::collections::BTreeMap<usize, u64>,
}

impl SchedStats {
    pub fn merge(&mut self, o: &SchedStats) {
        self.calls += o.calls;
        self.joins += o.joins;
        self.tasks += o.tasks;
        self.decisions += o.decisions;
        self.noncanonical += o.noncanonical;
        self.interleavings.extend(o.interleavings.iter().copied());
        for (k, v) in &o.shapes {
            *self.shapes.entry(k.clone()).or_insert(0) += v;
        }
        for (k, v) in &o.pools {
            *self.pools.entry(*k).or_insert(0) += v;
        }
    }
}

thread_local! {
    pub static SCHED: RefCell<SchedStats> = RefCell::new(SchedStats::default());
}

/// Run one top-level operation under an environment configuration.  The
/// schedule controller is installed for the duration and its statistics are
/// folded into the thread's `SCHED` accumulator.
pub fn under<R: Send>(env: &EnvCfg, f: impl FnOnce() -> R + Send) -> R {
    set_hash_stream(env.hash_seed ^ 0xA5A5_5A5A_1234_4321);
    #[cfg(feature = "engine-std")]
    {
        let ctl = if env.threads == 0 {
            rayon::sim::Ctl::canonical()
        } else {
            let mut c = rayon::sim::Ctl::random(env.threads, env.sched_seed);
            c.budget = env.sched_budget;
            c
        };
        rayon::sim::install(ctl);
        let r = f();
        if let Some(c) = rayon::sim::take() {
            SCHED.with(|s| {
                let mut s = s.borrow_mut();
                s.calls += c.calls;
                s.joins += c.joins;
                s.tasks += c.tasks;
                s.decisions += c.decisions;
                s.noncanonical += c.noncanonical;
                if c.noncanonical > 0 {
                    s.interleavings.insert(c.trace_hash);
                }
                for (k, v) in c.shapes {
                    *s.shapes.entry(k).or_insert(0) += v;
                }
                *s.pools.entry(env.threads).or_insert(0) += 1;
            });
        }
        r
    }
    #[cfg(feature = "engine-real")]
    {
        // the real work-stealing pool: only its size is ours to choose
        let t = if env.threads == 0 { 1 } else { env.threads.min(33) };
        let pool = rayon::ThreadPoolBuilder::new().num_threads(t).build().expect("pool");
        SCHED.with(|s| *s.borrow_mut().pools.entry(t).or_insert(0) += 1);
        pool.install(f)
    }
    #[cfg(not(any(feature = "engine-std", feature = "engine-real")))]
    {
        f()
    }
}

// ------------------------------------------------------------ panic capture

thread_local! {
    static LAST_PANIC: RefCell<Option<String>> = const { RefCell::new(None) };
}

pub fn install_panic_hook() {
    std::panic::set_hook(Box::new(|info| {
        let loc = info.location().map(|l| format!("{}:{}", l.file(), l.line())).unwrap_or_default();
        let msg = if let Some(s) = info.payload().downcast_ref::<&str>() {
            s.to_string()
        } else if let Some(s) = info.payload().downcast_ref::<String>() {
            s.clone()
        } else {
            "<non-string panic>".to_string()
        };
        LAST_PANIC.with(|p| *p.borrow_mut() = Some(format!("{} @ {}", msg, loc)));
    }));
}

/// Run `f`, turning a panic into `Err(message)`.
pub fn guarded<R>(f: impl FnOnce() -> R) -> Result<R, String> {
    match catch_unwind(AssertUnwindSafe(f)) {
        Ok(r) => Ok(r),
        Err(_) => {
            #[cfg(feature = "engine-std")]
            {
                // a panic may have left a controller installed
                let _ = rayon::sim::take();
            }
            Err(LAST_PANIC.with(|p| p.borrow_mut().take()).unwrap_or_else(|| "panic".into()))
        }
    }
}

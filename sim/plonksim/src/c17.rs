//! C17 — checked decoders are total, bounded and admit only well-formed data.
//!
//! Objects on the simulated disk: prover key, verifier key, proof, public
//! parameters, compressed circuit (commit keys are reached through the first
//! and the fourth).  Faults: the disk catalogue (bit flips, short / torn /
//! lost / misdirected writes, zeroed blocks, length-field edits, raw-point and
//! scalar edits, structure-aware compressed-circuit edits).  Oracle I-robust:
//! the decoder returns (a panic is a violation; abort / hang are caught by the
//! supervisor through the pre-case log line), peak allocation stays within
//! 16 x input + 1 MiB, and whatever is accepted re-encodes to bytes that pass
//! an independent strict parser and can be used without panicking.

use std::sync::Arc;

use dusk_bytes::{DeserializableSlice, Serializable};
use dusk_plonk::prelude::*;

use crate::allocseam;
use crate::compressed;
use crate::deploy::{self, proof_bytes, Route};
use crate::disk::{self, DiskFault};
use crate::framework::{progress_case, RunCtx, Violation};
use crate::json::J;
use crate::prng::{digest, Rng};
use crate::program::{Op, ProgCircuit, Program, Sc, Tape};
use crate::scenario::{gen_scenario, ScenCfg, SizeClass};
use crate::seams::{guarded, under, EnvCfg, ScriptedRng};
use crate::strict;

#[derive(Clone, Copy, Debug, PartialEq, Eq)]
pub enum Obj {
    Prover,
    Verifier,
    Proof,
    Params,
    Compressed,
}

pub const OBJS: [Obj; 5] = [Obj::Prover, Obj::Verifier, Obj::Proof, Obj::Params, Obj::Compressed];

impl Obj {
    pub fn name(&self) -> &'static str {
        match self {
            Obj::Prover => "prover_key",
            Obj::Verifier => "verifier_key",
            Obj::Proof => "proof",
            Obj::Params => "public_parameters",
            Obj::Compressed => "compressed_circuit",
        }
    }
}

pub struct Fixture {
    pub prog: Arc<Program>,
    pub tape: Tape,
    pub label: Vec<u8>,
    pub pp: PublicParameters,
    pub files: [Vec<u8>; 5],
    /// previous versions of the same files (another deployment)
    pub old: [Vec<u8>; 5],
    pub honest_pi: Vec<Sc>,
    pub max_constraints: usize,
}

pub fn fixture(prog: Arc<Program>, tape: Tape, label: Vec<u8>, degree: usize, rng_seed: u64) -> Option<Fixture> {
    let canon = EnvCfg::canonical();
    let pp = deploy::pp_with_degree(degree);
    let (prover, verifier) = deploy::compile(&pp, &label, &prog, Route::WithCircuit, &canon).ok()?;
    let mut rng = ScriptedRng::new(rng_seed);
    let (proof, pi) = deploy::prove(&prover, &prog, &tape, &mut rng, PlonkVersion::V3, &canon).ok()?;
    let cc = deploy::compress(&prog, &canon).ok()?;
    let files = [prover.to_bytes(), verifier.to_bytes(), proof_bytes(&proof), pp.to_var_bytes(), cc];
    // the previous deployment: another circuit, another label, another ceremony size
    let prog_old = Arc::new(Program { ops: vec![Op::Input(crate::program::Kind::Any), Op::Filler(3)] });
    let pp_old = deploy::pp_with_degree(degree + 3);
    let (p_old, v_old) = deploy::compile(&pp_old, b"old", &prog_old, Route::WithCircuit, &canon).ok()?;
    let mut rng = ScriptedRng::new(rng_seed ^ 1);
    let (proof_old, _) = deploy::prove(&p_old, &prog_old, &Tape::default(), &mut rng, PlonkVersion::V3, &canon).ok()?;
    let cc_old = deploy::compress(&prog_old, &canon).ok()?;
    let old = [p_old.to_bytes(), v_old.to_bytes(), proof_bytes(&proof_old), pp_old.to_var_bytes(), cc_old];
    // capacity bound of the parameters, as the library's documentation states it
    let available = pp.max_degree().saturating_sub(6);
    let max_domain = if available == 0 { 0 } else { 1usize << (usize::BITS - available.leading_zeros() - 1) };
    Some(Fixture { prog, tape, label, pp, files, old, honest_pi: pi, max_constraints: max_domain.saturating_sub(6) })
}

fn obj_index(o: Obj) -> usize {
    OBJS.iter().position(|x| *x == o).unwrap()
}

/// Allocation budget for decoding `len` bytes of object `o`.
pub fn alloc_budget(o: Obj, len: usize, fx: &Fixture) -> usize {
    match o {
        // decompression work and memory are bounded by the capacity of the parameters
        Obj::Compressed => 64 * 1024 * fx.max_constraints.max(1) + (8 << 20),
        _ => 16 * len + (1 << 20),
    }
}

/// One decoder case: feed `bytes` (object `o`) to the checked decoder.
pub fn decode_case(ctx: &mut RunCtx, fx: &Fixture, o: Obj, bytes: &[u8], what: &str, env: &EnvCfg) -> Result<bool, Violation> {
    decode_case_opt(ctx, fx, o, bytes, what, env, true)
}

/// `use_check`: also exercise an accepted object (prove / verify / compile).
pub fn decode_case_opt(ctx: &mut RunCtx, fx: &Fixture, o: Obj, bytes: &[u8], what: &str, env: &EnvCfg, use_check: bool) -> Result<bool, Violation> {
    ctx.st.steps += 1;
    let len = bytes.len();
    let budget = alloc_budget(o, len, fx);
    let panic_v = |stage: &str, msg: String| Violation::new("panic", format!("{} of a faulted {} ({}) panicked: {}", stage, o.name(), what, msg));
    let mark = allocseam::begin();
    enum Decoded {
        P(Box<Prover>),
        V(Box<Verifier>),
        Pf(Box<Proof>),
        Pp(Box<PublicParameters>),
        Cc(Box<(Prover, Verifier)>),
        Rejected,
    }
    let r = guarded(|| {
        under(env, || match o {
            Obj::Prover => Prover::try_from_bytes(bytes).map(|p| Decoded::P(Box::new(p))).unwrap_or(Decoded::Rejected),
            Obj::Verifier => Verifier::try_from_bytes(bytes).map(|p| Decoded::V(Box::new(p))).unwrap_or(Decoded::Rejected),
            Obj::Proof => Proof::from_slice(bytes).map(|p| Decoded::Pf(Box::new(p))).unwrap_or(Decoded::Rejected),
            Obj::Params => PublicParameters::from_slice(bytes).map(|p| Decoded::Pp(Box::new(p))).unwrap_or(Decoded::Rejected),
            Obj::Compressed => Compiler::compile_with_compressed(&fx.pp, &fx.label, bytes).map(|p| Decoded::Cc(Box::new(p))).unwrap_or(Decoded::Rejected),
        })
    });
    let (peak, maxreq) = allocseam::end(mark);
    ctx.st.log(digest(bytes) ^ matches!(&r, Ok(Decoded::Rejected)) as u64);
    let d = match r {
        Ok(d) => d,
        Err(p) => return Err(panic_v("decoding", p)),
    };
    if peak > budget {
        return Err(Violation::new(
            "I-bounded",
            format!("decoding a faulted {} of {} bytes ({}) allocated {} bytes at peak (largest request {}), budget {}", o.name(), len, what, peak, maxreq, budget),
        ));
    }
    let wf = |e: String| Violation::new("I-wellformed", format!("a faulted {} ({}) was accepted but its re-encoding is not well-formed: {}", o.name(), what, e));
    match d {
        Decoded::Rejected => {
            ctx.st.probe(&format!("{}.rejected", o.name()));
            Ok(false)
        }
        Decoded::P(p) => {
            ctx.st.probe(&format!("{}.accepted", o.name()));
            let re = p.to_bytes();
            strict::prover_strict(&re).map_err(wf)?;
            if !use_check {
                return Ok(true);
            }
            ctx.st.probe("accepted_prover_key_used_for_proving");
            // usable: proves the honest tape or returns an error
            let c = ProgCircuit { prog: fx.prog.clone(), tape: fx.tape.clone() };
            let mut rng = ScriptedRng::new(7);
            match guarded(|| under(env, || p.prove(&mut rng, &c).is_ok())) {
                Ok(_) => Ok(true),
                Err(m) => Err(panic_v("proving with an accepted", m)),
            }
        }
        Decoded::V(v) => {
            ctx.st.probe(&format!("{}.accepted", o.name()));
            let re = v.to_bytes();
            strict::verifier_strict(&re).map_err(wf)?;
            let proof = Proof::from_slice(&fx.files[2]).expect("fixture proof");
            match guarded(|| under(env, || v.verify(&proof, &fx.honest_pi).is_ok())) {
                Ok(_) => Ok(true),
                Err(m) => Err(panic_v("verifying with an accepted", m)),
            }
        }
        Decoded::Pf(p) => {
            ctx.st.probe(&format!("{}.accepted", o.name()));
            strict::proof_strict(&p.to_bytes()).map_err(wf)?;
            Ok(true)
        }
        Decoded::Pp(pp) => {
            ctx.st.probe(&format!("{}.accepted", o.name()));
            let re = pp.to_var_bytes();
            strict::params_strict(&re).map_err(wf)?;
            // the format has no length field: what decodes must be exactly what was read
            if re != bytes {
                return Err(Violation::new(
                    "I-wellformed",
                    format!("faulted public parameters ({}) of {} bytes were accepted as a value that encodes to {} bytes: part of the input was ignored", what, len, re.len()),
                ));
            }
            match guarded(|| deploy::compile(&pp, &fx.label, &fx.prog, Route::WithCircuit, env).is_ok()) {
                Ok(_) => Ok(true),
                Err(m) => Err(panic_v("compiling with accepted", m)),
            }
        }
        Decoded::Cc(k) => {
            ctx.st.probe(&format!("{}.accepted", o.name()));
            let (p, v) = *k;
            // the keys a description compiles to must survive their own encoding
            let pb = p.to_bytes();
            match guarded(|| Prover::try_from_bytes(&pb).map(|q| q.to_bytes())) {
                Ok(Ok(b2)) if b2 == pb => {}
                Ok(Ok(_)) => return Err(Violation::new("I-durable", format!("keys compiled from an accepted compressed description ({}) re-encode differently after a reload", what))),
                Ok(Err(e)) => {
                    return Err(Violation::new(
                        "I-durable",
                        format!("the prover compiled from an accepted compressed description ({}) does not decode from its own encoding: {:?}", what, e),
                    ))
                }
                Err(m) => return Err(panic_v("reloading the prover compiled from an accepted", m)),
            }
            strict::prover_strict(&pb).map_err(&wf)?;
            strict::verifier_strict(&v.to_bytes()).map_err(&wf)?;
            // the description itself, under an independent parser
            {
                let stored = &fx.files[obj_index(Obj::Compressed)];
                let end = match (compressed::decode(stored), compressed::decode(bytes)) {
                    // the end of the table is known when the table flavour and the description's own scalars are the stored ones
                    (Some((c0, _)), Some((c1, _))) if c0.hades_optimization == c1.hades_optimization => compressed::table_end(&c0).map(|e| e - c0.scalars.len() + c1.scalars.len()),
                    _ => None,
                };
                compressed::strict(bytes, end).map_err(|e| Violation::new("I-wellformed", format!("a faulted compressed_circuit ({}) was accepted although {}", what, e)))?;
            }
            let c = ProgCircuit { prog: fx.prog.clone(), tape: fx.tape.clone() };
            let mut rng = ScriptedRng::new(7);
            match guarded(|| under(env, || p.prove(&mut rng, &c).is_ok())) {
                Ok(_) => Ok(true),
                Err(m) => Err(panic_v("proving with keys from an accepted", m)),
            }
        }
    }
}

/// The fixed minimal deployment whose encodings are enumerated bit by bit.
pub fn minimal_fixture() -> Fixture {
    let prog = Arc::new(Program {
        ops: vec![Op::Input(crate::program::Kind::Any), Op::Public(crate::program::Kind::Any), Op::EvalOut {
            q: [Sc::one(), Sc::one(), Sc::zero(), -Sc::one(), Sc::zero(), Sc::from(5u64)],
            a: 2,
            b: 3,
            d: 0,
            pi: true,
        }],
    });
    let mut r = Rng::new(0xF1C7);
    let tape = crate::program::honest_tape(&prog, &mut r);
    fixture(prog, tape, b"enum".to_vec(), 16, 0xABCD).expect("minimal fixture")
}

/// Bits of each object that the enumeration tier flips one by one.
pub fn enumeration_plan(fx: &Fixture) -> Vec<(Obj, Vec<usize>)> {
    let window = 512usize;
    let mut plan = Vec::new();
    // verifier key and proof: every bit
    plan.push((Obj::Verifier, (0..fx.files[1].len() * 8).collect()));
    plan.push((Obj::Proof, (0..fx.files[2].len() * 8).collect()));
    // compressed circuit: every bit
    plan.push((Obj::Compressed, (0..fx.files[4].len() * 8).collect()));
    // prover key: header, and the first and last 512 bytes of each section
    let mut bits = Vec::new();
    if let Ok(lay) = strict::prover_strict(&fx.files[0]) {
        let mut ranges: Vec<(usize, usize)> = vec![(0, 48)];
        for (_, off, len) in &lay.sections {
            ranges.push((*off, (*off + window).min(off + len)));
            ranges.push(((off + len).saturating_sub(window).max(*off), off + len));
        }
        let mut bytes: Vec<usize> = ranges.iter().flat_map(|(a, b)| *a..*b).collect();
        bytes.sort_unstable();
        bytes.dedup();
        for by in bytes {
            for k in 0..8 {
                bits.push(by * 8 + k);
            }
        }
    }
    plan.push((Obj::Prover, bits));
    // parameters: opening key and the first and last four points
    let n = fx.files[3].len();
    let mut bytes: Vec<usize> = (0..240 + 4 * 48).chain(n - 4 * 48..n).collect();
    bytes.sort_unstable();
    bytes.dedup();
    plan.push((Obj::Params, bytes.iter().flat_map(|by| (0..8).map(move |k| by * 8 + k)).collect()));
    plan
}

/// Every truncation length (short write) of the small objects, and the lengths around every
/// section boundary of the prover key.
pub fn truncation_plan(fx: &Fixture) -> Vec<(Obj, usize)> {
    let mut v = Vec::new();
    for o in [Obj::Verifier, Obj::Proof, Obj::Params, Obj::Compressed] {
        for len in 0..fx.files[obj_index(o)].len() {
            v.push((o, len));
        }
    }
    if let Ok(lay) = strict::prover_strict(&fx.files[0]) {
        let n = fx.files[0].len();
        let mut lens: Vec<usize> = (0..64).collect();
        for (_, off, len) in &lay.sections {
            for b in [*off, off + len] {
                for d in 0..48usize {
                    lens.push((b + d).min(n - 1));
                    lens.push(b.saturating_sub(d));
                }
            }
        }
        lens.sort_unstable();
        lens.dedup();
        for l in lens {
            v.push((Obj::Prover, l));
        }
    }
    v
}

pub fn enum_total(plan: &[(Obj, Vec<usize>)]) -> usize {
    plan.iter().map(|(_, b)| b.len()).sum()
}

pub const ENUM_CHUNK: usize = 400;

/// Number of enumeration runs (each covers ENUM_CHUNK single-bit flips).
pub fn enum_runs() -> u64 {
    thread_local! { static N: std::cell::Cell<u64> = const { std::cell::Cell::new(0) }; }
    N.with(|n| {
        if n.get() == 0 {
            let fx = minimal_fixture();
            n.set((enum_total(&enumeration_plan(&fx)) + truncation_plan(&fx).len()).div_ceil(ENUM_CHUNK) as u64);
        }
        n.get()
    })
}

fn run_enumeration(ctx: &mut RunCtx) -> Result<(), Violation> {
    let fx = minimal_fixture();
    let plan = enumeration_plan(&fx);
    // (object, Some(bit) = single-bit flip | None, truncation length)
    let mut flat: Vec<(Obj, Option<usize>, usize)> = plan.iter().flat_map(|(o, bits)| bits.iter().map(move |b| (*o, Some(*b), 0))).collect();
    let trunc = truncation_plan(&fx);
    flat.extend(trunc.iter().map(|(o, l)| (*o, None, *l)));
    let start = ctx.run as usize * ENUM_CHUNK;
    let end = (start + ENUM_CHUNK).min(flat.len());
    let env = EnvCfg::canonical();
    let keep = if ctx.spec.get("keepf").is_some() { Some(ctx.spec.list("keepf")) } else { None };
    ctx.hints.n_faults = end.saturating_sub(start);
    for (k, (o, bit, tlen)) in flat[start.min(flat.len())..end].iter().enumerate() {
        if let Some(kf) = &keep {
            if !kf.contains(&k) {
                continue;
            }
        }
        let stored = &fx.files[obj_index(*o)];
        let (fault, what) = match bit {
            Some(bit) => (DiskFault::BitFlip(*bit), format!("single bit flip at byte {} bit {}", bit / 8, bit % 8)),
            None => (DiskFault::Truncate(*tlen), format!("short write: first {} of {} bytes", tlen, stored.len())),
        };
        let bit = &bit.unwrap_or(*tlen);
        let bytes = disk::apply(stored, &fault, None, None);
        progress_case(ctx.prop, ctx.run, k, &what);
        ctx.st.fault(&format!("enum.{}.{}", o.name(), if matches!(fault, DiskFault::BitFlip(_)) { "bitflip" } else { "short_write" }));
        ctx.note("object", J::s(o.name()));
        ctx.note("fault", J::s(what.clone()));
        // proving with every accepted single-bit neighbour of a prover key costs ~75 ms each:
        // the quick tier exercises a fixed quarter of them, the thorough tier all
        let use_check = *o != Obj::Prover || ctx.thorough || bit % 4 == 0;
        let accepted = decode_case_opt(ctx, &fx, *o, &bytes, &what, &env, use_check)?;
        ctx.st.eval(digest(&bytes) ^ (*bit as u64) << 3 ^ obj_index(*o) as u64, true);
        let _ = accepted;
    }
    ctx.st.probe("enumeration_chunks");
    ctx.st.notes.insert("enum_runs".into(), enum_runs().to_string());
    if ctx.run == 0 {
        ctx.st.notes.insert(
            "enumerated_subspaces".into(),
            format!(
                "{}; every truncation length of verifier key, proof, parameters and compressed circuit and the lengths within 48 bytes of every section boundary of the prover key ({} short writes)",
                plan.iter().map(|(o, b)| format!("{}:{} bits", o.name(), b.len())).collect::<Vec<_>>().join(", "),
                trunc.len()
            ),
        );
        ctx.st.sample(J::obj(vec![
            ("enumeration", J::s("every single-bit flip of the minimal deployment's encodings")),
            ("objects", J::A(plan.iter().map(|(o, b)| J::s(format!("{}: {} bits of {} bytes", o.name(), b.len(), fx.files[obj_index(*o)].len()))).collect())),
        ]));
    }
    Ok(())
}

pub fn run(ctx: &mut RunCtx) -> Result<(), Violation> {
    let n_enum = enum_runs();
    if ctx.run < n_enum && !ctx.spec.flag("explore") {
        return run_enumeration(ctx);
    }
    let mut w = ctx.stream("workload");
    let mut s = ctx.stream("sched");
    let mut f = ctx.stream("faults");
    let sc = gen_scenario(ctx, &mut w, &ScenCfg { class: SizeClass::Tiny, heavy: false, raw: true, exact_target: false, max_ops: 10 });
    // keep the deployment small: decoding cost is dominated by per-point subgroup checks
    if sc.constraints > 70 {
        return Ok(());
    }
    let fx = match fixture(sc.prog.clone(), sc.tape.clone(), sc.label.clone(), sc.degree, sc.rng_seed) {
        Some(f) => f,
        None => return Ok(()),
    };
    let layouts = [strict::prover_strict(&fx.files[0]).ok(), strict::verifier_strict(&fx.files[1]).ok(), None, strict::params_strict(&fx.files[3]).ok(), None];
    if layouts[0].is_none() || layouts[1].is_none() || layouts[3].is_none() {
        return Err(Violation::new("I-wellformed", "the strict parser rejects an honest encoding (harness or encoder defect)"));
    }
    // the unfaulted objects decode and are usable (control)
    for o in OBJS {
        let env = ctx.env(&mut s);
        let ok = decode_case(ctx, &fx, o, &fx.files[obj_index(o)], "no fault (control)", &env)?;
        ctx.st.eval(digest(&fx.files[obj_index(o)]) ^ 0xc0, false);
        if !ok {
            return Err(Violation::new("I-durable", format!("an unfaulted {} is rejected by its decoder", o.name())));
        }
    }
    // hand-built hollow objects: headers that announce a lot and carry nothing.  A prover whose
    // prover-key section consists of n, the size of an evaluations block, an empty first polynomial
    // and the *canonical* header of the 8n evaluation domain - and then ends.  Nothing about it is
    // inconsistent until the data is missed, so a decoder that sizes a buffer from the domain header
    // allocates 256 n bytes for a 244-byte input.
    for _ in 0..3 {
        let k = 10 + f.below(14);
        let n = 1u64 << k;
        let dom = 8 * n;
        if let Some((_, omega)) = crate::rm_verify::domain_for(dom) {
            use dusk_bytes::Serializable;
            let inv = |x: BlsScalar| Option::<BlsScalar>::from(x.invert()).unwrap_or(BlsScalar::zero());
            let mut pk = Vec::new();
            pk.extend_from_slice(&n.to_le_bytes());
            // the announced size of an evaluations block: what is really there (the decoder cuts that
            // many bytes off before it reads the block), or what an honest key would announce
            let extra = f.usize(3) * 32;
            let announced = if f.chance(3, 4) { 172 + extra as u64 } else { dom * 32 + 172 };
            pk.extend_from_slice(&announced.to_le_bytes());
            pk.extend_from_slice(&0u64.to_le_bytes());
            pk.extend_from_slice(&dom.to_le_bytes());
            pk.extend_from_slice(&((k + 3) as u32).to_le_bytes());
            for x in [BlsScalar::from(dom), inv(BlsScalar::from(dom)), omega, inv(omega), inv(dusk_bls12_381::GENERATOR)] {
                pk.extend_from_slice(&x.to_bytes());
            }
            pk.extend(std::iter::repeat(0u8).take(extra));
            let mut bytes = Vec::new();
            for v in [0u64, pk.len() as u64, 0, 0, n, n - f.below(2)] {
                bytes.extend_from_slice(&v.to_be_bytes());
            }
            bytes.extend_from_slice(&pk);
            let what = format!("hollow prover: n = 2^{}, canonical 2^{} domain header, {} bytes of evaluations", k, k + 3, extra);
            let env = ctx.env(&mut s);
            progress_case(ctx.prop, ctx.run, 9000 + k as usize, &what);
            ctx.st.fault("disk.hollow_evaluations_section");
            ctx.note("object", J::s("prover_key"));
            ctx.note("fault", J::s(what.clone()));
            decode_case(ctx, &fx, Obj::Prover, &bytes, &what, &env)?;
            ctx.st.eval(digest(&bytes) ^ 0x4011, true);
        }
    }
    let n_cases = if ctx.thorough { 160 } else { 80 };
    ctx.hints.n_faults = n_cases;
    let keep = if ctx.spec.get("keepf").is_some() { Some(ctx.spec.list("keepf")) } else { None };
    let mut shown = 0;
    for k in 0..n_cases {
        let o = *f.pick(&[Obj::Prover, Obj::Prover, Obj::Verifier, Obj::Verifier, Obj::Proof, Obj::Params, Obj::Compressed, Obj::Compressed]);
        let oi = obj_index(o);
        let stored = &fx.files[oi];
        let (bytes, what, kind) = if o == Obj::Compressed && f.chance(2, 3) {
            let e = compressed::random_edit(&mut f);
            match compressed::apply(stored, &e, &mut f) {
                Some(b) => (b, format!("{:?}", e), e.kind().to_string()),
                None => continue,
            }
        } else {
            let mut fault = disk::random_fault(&mut f, stored.len(), layouts[oi].as_ref());
            if f.chance(1, 8) {
                // short writes that end just after a section or element boundary
                let cuts: Vec<usize> = match (o, layouts[oi].as_ref()) {
                    (Obj::Params, _) => vec![240, 240 + 48, 240 + 96, stored.len() - 48],
                    (_, Some(l)) => l.sections.iter().flat_map(|(_, off, len)| [*off, off + len]).collect(),
                    _ => vec![0, stored.len()],
                };
                let base = cuts[f.usize(cuts.len())];
                let off = *f.pick(&[0usize, 0, 0, 1, 2, 47, 48]) + if f.chance(1, 4) { f.usize(48) } else { 0 };
                fault = DiskFault::Truncate((base + off).min(stored.len()));
            }
            let other = &fx.files[(oi + 1 + f.usize(4)) % 5];
            let b = disk::apply(stored, &fault, Some(&fx.old[oi]), Some(other));
            let desc = match &fault {
                DiskFault::LenField { name, value, .. } => format!("length field {} := {}", name, value),
                other => format!("{:?}", other).chars().take(120).collect(),
            };
            (b, desc, fault.kind().to_string())
        };
        let env = ctx.env(&mut s);
        if let Some(kf) = &keep {
            if !kf.contains(&k) {
                continue;
            }
        }
        progress_case(ctx.prop, ctx.run, k, &what);
        ctx.st.fault(&kind);
        ctx.note("object", J::s(o.name()));
        ctx.note("fault", J::s(what.clone()));
        let accepted = decode_case(ctx, &fx, o, &bytes, &what, &env)?;
        ctx.st.eval(digest(&bytes) ^ digest(kind.as_bytes()), bytes != *stored);
        if shown < 2 && ctx.st.samples.len() < 6 {
            shown += 1;
            ctx.st.sample(J::obj(vec![
                ("run", J::U(ctx.run)),
                ("object", J::s(o.name())),
                ("stored_len", J::U(stored.len() as u64)),
                ("fault", J::s(what)),
                ("accepted", J::Bool(accepted)),
            ]));
        }
    }
    Ok(())
}

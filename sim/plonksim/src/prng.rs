//! One integer decides everything: every stream is derived from VERIF_SEED.

use dusk_bls12_381::BlsScalar;

#[inline]
pub fn splitmix64(state: &mut u64) -> u64 {
    *state = state.wrapping_add(0x9E37_79B9_7F4A_7C15);
    let mut z = *state;
    z = (z ^ (z >> 30)).wrapping_mul(0xBF58_476D_1CE4_E5B9);
    z = (z ^ (z >> 27)).wrapping_mul(0x94D0_49BB_1331_11EB);
    z ^ (z >> 31)
}

/// Derive a sub-seed from a seed and tags (order-sensitive).
pub fn derive(seed: u64, tags: &[u64]) -> u64 {
    let mut s = seed ^ 0x5851_F42D_4C95_7F2D;
    let mut out = splitmix64(&mut s);
    for t in tags {
        s ^= t.wrapping_mul(0xD6E8_FEB8_6659_FD93);
        out = splitmix64(&mut s) ^ out.rotate_left(17);
    }
    out
}

pub fn tag(s: &str) -> u64 {
    // FNV-1a
    let mut h = 0xcbf2_9ce4_8422_2325u64;
    for b in s.bytes() {
        h ^= b as u64;
        h = h.wrapping_mul(0x0000_0100_0000_01B3);
    }
    h
}

#[derive(Clone, Debug)]
pub struct Rng(pub u64);

impl Rng {
    pub fn new(seed: u64) -> Self {
        Rng(seed)
    }
    pub fn sub(&self, name: &str) -> Rng {
        Rng(derive(self.0, &[tag(name)]))
    }
    pub fn u64(&mut self) -> u64 {
        splitmix64(&mut self.0)
    }
    pub fn below(&mut self, n: u64) -> u64 {
        if n <= 1 {
            0
        } else {
            self.u64() % n
        }
    }
    pub fn usize(&mut self, n: usize) -> usize {
        self.below(n as u64) as usize
    }
    /// inclusive range
    pub fn range(&mut self, lo: i64, hi: i64) -> i64 {
        lo + self.below((hi - lo + 1) as u64) as i64
    }
    pub fn chance(&mut self, num: u64, den: u64) -> bool {
        self.below(den) < num
    }
    pub fn pick<'a, T>(&mut self, xs: &'a [T]) -> &'a T {
        &xs[self.usize(xs.len())]
    }
    pub fn fill(&mut self, buf: &mut [u8]) {
        for c in buf.chunks_mut(8) {
            let v = self.u64().to_le_bytes();
            c.copy_from_slice(&v[..c.len()]);
        }
    }
    pub fn bytes(&mut self, n: usize) -> Vec<u8> {
        let mut v = vec![0u8; n];
        self.fill(&mut v);
        v
    }
    pub fn scalar(&mut self) -> BlsScalar {
        let mut b = [0u8; 64];
        self.fill(&mut b);
        BlsScalar::from_bytes_wide(&b)
    }
    /// A scalar drawn with boundary values over-weighted.
    pub fn scalar_edgy(&mut self) -> BlsScalar {
        match self.below(10) {
            0 => BlsScalar::zero(),
            1 => BlsScalar::one(),
            2 => -BlsScalar::one(),
            3 => BlsScalar::from(self.below(16)),
            4 => BlsScalar::pow_of_2(self.below(255)),
            5 => BlsScalar::pow_of_2(self.below(255)) - BlsScalar::one(),
            6 => -BlsScalar::from(self.below(16)),
            _ => self.scalar(),
        }
    }
    pub fn shuffle<T>(&mut self, xs: &mut [T]) {
        for i in (1..xs.len()).rev() {
            let j = self.usize(i + 1);
            xs.swap(i, j);
        }
    }
}

/// 64-bit digest of a byte string (blake2b truncated) for logs and evidence.
pub fn digest(bytes: &[u8]) -> u64 {
    let h = blake2b_simd::Params::new().hash_length(8).hash(bytes);
    let mut b = [0u8; 8];
    b.copy_from_slice(h.as_bytes());
    u64::from_le_bytes(b)
}

pub fn hex(bytes: &[u8]) -> String {
    let mut s = String::with_capacity(bytes.len() * 2);
    for b in bytes {
        s.push_str(&format!("{:02x}", b));
    }
    s
}

//! RM-rows — an independent row-by-row evaluator of a compiled layout against
//! the wire values of a circuit instance.  Written from the protocol
//! description; every identity component is checked separately (no separation
//! challenges), next-row wires are read cyclically over the padded domain, and
//! the compiled copy constraints are checked value-wise.
//!
//! Input: two `verif_snapshot()`s — the layout the keys were compiled from and
//! the instance being proven.

use dusk_bls12_381::BlsScalar;
use dusk_jubjub::EDWARDS_D;
use dusk_plonk::verif::Snapshot;

use crate::rm_verify::logic_fifth;

type Fr = BlsScalar;

#[derive(Clone, Debug, PartialEq, Eq)]
pub enum RowVerdict {
    Satisfied,
    /// (row, identity component)
    GateViolated(usize, &'static str),
    /// (witness class of the compiled layout, row, wire)
    CopyViolated(usize, usize, usize),
    /// the instance has another number of rows than the compiled layout
    SizeMismatch(usize, usize),
}

impl RowVerdict {
    pub fn satisfied(&self) -> bool {
        matches!(self, RowVerdict::Satisfied)
    }
}

fn delta4(f: Fr) -> Fr {
    f * (f - Fr::one()) * (f - Fr::from(2u64)) * (f - Fr::from(3u64))
}

/// Same shape: selectors, wiring and public-input rows (values excluded).
pub fn same_shape(a: &Snapshot, b: &Snapshot) -> Result<(), String> {
    if a.selectors.len() != b.selectors.len() {
        return Err(format!("{} rows vs {} rows", a.selectors.len(), b.selectors.len()));
    }
    for (i, (x, y)) in a.selectors.iter().zip(b.selectors.iter()).enumerate() {
        if x != y {
            return Err(format!("selectors differ on row {}", i));
        }
    }
    for (i, (x, y)) in a.wires.iter().zip(b.wires.iter()).enumerate() {
        if x != y {
            return Err(format!("wiring differs on row {}: {:?} vs {:?}", i, x, y));
        }
    }
    let ra: Vec<usize> = a.public_inputs.iter().map(|(r, _)| *r).collect();
    let rb: Vec<usize> = b.public_inputs.iter().map(|(r, _)| *r).collect();
    if ra != rb {
        return Err(format!("public-input rows differ: {:?} vs {:?}", ra, rb));
    }
    if a.witnesses.len() != b.witnesses.len() {
        return Err(format!("{} witnesses vs {}", a.witnesses.len(), b.witnesses.len()));
    }
    Ok(())
}

/// Do two layouts denote the same circuit description?  Selectors row by row, public-input rows,
/// and the copy-constraint *partition* of the 4n cells (witness labels are names: two wirings that
/// induce the same partition are the same description).
pub fn same_description(a: &Snapshot, b: &Snapshot) -> bool {
    if a.selectors != b.selectors {
        return false;
    }
    let ra: Vec<usize> = a.public_inputs.iter().map(|(r, _)| *r).collect();
    let rb: Vec<usize> = b.public_inputs.iter().map(|(r, _)| *r).collect();
    if ra != rb || a.wires.len() != b.wires.len() {
        return false;
    }
    let canon = |s: &Snapshot| -> Vec<usize> {
        let mut names = std::collections::BTreeMap::new();
        let mut out = Vec::with_capacity(s.wires.len() * 4);
        for w in 0..4 {
            for row in &s.wires {
                let next = names.len();
                out.push(*names.entry(row[w]).or_insert(next));
            }
        }
        out
    };
    canon(a) == canon(b)
}

/// Evaluate the compiled layout on the instance's wire values.
pub fn evaluate(compiled: &Snapshot, instance: &Snapshot) -> RowVerdict {
    let rows = compiled.selectors.len();
    if instance.wires.len() != rows {
        return RowVerdict::SizeMismatch(instance.wires.len(), rows);
    }
    let n = rows.next_power_of_two().max(1);
    let val = |row: usize, wire: usize| -> Fr {
        if row < rows {
            instance.witnesses.get(instance.wires[row][wire]).copied().unwrap_or(Fr::zero())
        } else {
            Fr::zero()
        }
    };
    let mut pi = vec![Fr::zero(); n];
    for (row, v) in &instance.public_inputs {
        if *row < n {
            pi[*row] = *v;
        }
    }
    let zero = Fr::zero();
    let one = Fr::one();
    let four = Fr::from(4u64);
    for i in 0..n {
        let nx = (i + 1) % n;
        let (a, b, c, d) = (val(i, 0), val(i, 1), val(i, 2), val(i, 3));
        let (a_n, b_n, d_n) = (val(nx, 0), val(nx, 1), val(nx, 3));
        let sel = if i < rows { compiled.selectors[i] } else { [zero; 11] };
        let (q_m, q_l, q_r, q_o, q_f, q_c) = (sel[0], sel[1], sel[2], sel[3], sel[4], sel[5]);
        let (q_arith, q_range, q_logic, q_fixed, q_var) = (sel[6], sel[7], sel[8], sel[9], sel[10]);
        // arithmetic identity with the public input of the row
        if q_arith * (q_m * a * b + q_l * a + q_r * b + q_o * c + q_f * d + q_c) + pi[i] != zero {
            return RowVerdict::GateViolated(i, "arithmetic");
        }
        if q_range != zero {
            if delta4(c - four * d) != zero {
                return RowVerdict::GateViolated(i, "range.c-4d");
            }
            if delta4(b - four * c) != zero {
                return RowVerdict::GateViolated(i, "range.b-4c");
            }
            if delta4(a - four * b) != zero {
                return RowVerdict::GateViolated(i, "range.a-4b");
            }
            if delta4(d_n - four * a) != zero {
                return RowVerdict::GateViolated(i, "range.dnext-4a");
            }
        }
        if q_logic != zero {
            let qa = a_n - four * a;
            let qb = b_n - four * b;
            let qd = d_n - four * d;
            if delta4(qa) != zero {
                return RowVerdict::GateViolated(i, "logic.quad_a");
            }
            if delta4(qb) != zero {
                return RowVerdict::GateViolated(i, "logic.quad_b");
            }
            if delta4(qd) != zero {
                return RowVerdict::GateViolated(i, "logic.quad_out");
            }
            if c - qa * qb != zero {
                return RowVerdict::GateViolated(i, "logic.product");
            }
            if logic_fifth(qa, qb, c, qd, q_c) != zero {
                return RowVerdict::GateViolated(i, "logic.and_xor");
            }
        }
        if q_fixed != zero {
            let bit = d_n - d - d;
            if bit * (bit - one) * (bit + one) != zero {
                return RowVerdict::GateViolated(i, "fixed_base.digit");
            }
            if bit * q_c - c != zero {
                return RowVerdict::GateViolated(i, "fixed_base.xy_alpha");
            }
            let y_alpha = bit.square() * (q_r - one) + one;
            let x_alpha = q_l * bit;
            if (a_n + a_n * c * a * b * EDWARDS_D) - (x_alpha * b + y_alpha * a) != zero {
                return RowVerdict::GateViolated(i, "fixed_base.x_accumulator");
            }
            if (b_n - b_n * c * a * b * EDWARDS_D) - (x_alpha * a + y_alpha * b) != zero {
                return RowVerdict::GateViolated(i, "fixed_base.y_accumulator");
            }
        }
        if q_var != zero {
            let (x1, y1, x2, y2, x3, y3, x1y2) = (a, b, c, d, a_n, b_n, d_n);
            let y1x2 = y1 * x2;
            if x1 * y2 - x1y2 != zero {
                return RowVerdict::GateViolated(i, "curve_addition.x1y2");
            }
            if (x1y2 + y1x2) - (x3 + x3 * EDWARDS_D * x1y2 * y1x2) != zero {
                return RowVerdict::GateViolated(i, "curve_addition.x3");
            }
            if (y1 * y2 + x1 * x2) - (y3 - y3 * EDWARDS_D * x1y2 * y1x2) != zero {
                return RowVerdict::GateViolated(i, "curve_addition.y3");
            }
        }
    }
    // compiled copy constraints: positions wired to one witness in the compiled layout hold one value
    let mut first: Vec<Option<(Fr, usize, usize)>> = vec![None; compiled.witnesses.len().max(1)];
    for (row, ws) in compiled.wires.iter().enumerate() {
        for (wire, w) in ws.iter().enumerate() {
            if *w >= first.len() {
                continue;
            }
            let v = val(row, wire);
            match first[*w] {
                None => first[*w] = Some((v, row, wire)),
                Some((v0, _, _)) => {
                    if v0 != v {
                        return RowVerdict::CopyViolated(*w, row, wire);
                    }
                }
            }
        }
    }
    RowVerdict::Satisfied
}

// --------------------------------------------------------------- I-sigma

fn le64(b: &[u8], off: usize) -> Option<u64> {
    let s = b.get(off..off + 8)?;
    let mut x = [0u8; 8];
    x.copy_from_slice(s);
    Some(u64::from_le_bytes(x))
}

fn be64(b: &[u8], off: usize) -> Option<u64> {
    let s = b.get(off..off + 8)?;
    let mut x = [0u8; 8];
    x.copy_from_slice(s);
    Some(u64::from_be_bytes(x))
}

/// The four sigma polynomials (coefficient form) of `Prover::to_bytes()`.
fn sigma_polys(prover_bytes: &[u8]) -> Option<(usize, Vec<Vec<Fr>>)> {
    use dusk_bytes::Serializable;
    let label_len = be64(prover_bytes, 0)? as usize;
    let pk = prover_bytes.get(48 + label_len..)?;
    let n = le64(pk, 0)? as usize;
    let eval_size = le64(pk, 8)? as usize;
    let mut off = 16;
    let mut polys = Vec::new();
    for _ in 0..15 {
        let plen = le64(pk, off)? as usize;
        off += 8;
        let mut coeffs = Vec::with_capacity(plen);
        for i in 0..plen {
            let s = pk.get(off + 32 * i..off + 32 * i + 32)?;
            let mut x = [0u8; 32];
            x.copy_from_slice(s);
            coeffs.push(Option::<Fr>::from(Fr::from_bytes(&x))?);
        }
        off += 32 * plen + eval_size;
        polys.push(coeffs);
    }
    Some((n, polys.split_off(11)))
}

/// The compiled permutation must encode exactly the copy constraints of the
/// compiled layout: sigma is a permutation of the 4n cells whose cycles are
/// the sets of cells wired to one witness; every other cell is a fixed point.
pub fn check_sigma(prover_bytes: &[u8], compiled: &Snapshot) -> Result<(), String> {
    use dusk_bytes::Serializable;
    let (n, sig) = sigma_polys(prover_bytes).ok_or("cannot parse the sigma polynomials out of the prover encoding")?;
    let rows = compiled.selectors.len();
    if n != rows.next_power_of_two().max(1) {
        return Err(format!("prover key domain {} does not match {} rows", n, rows));
    }
    let (_, omega) = crate::rm_verify::domain_for(n as u64).ok_or("no domain")?;
    let ks = [Fr::one(), Fr::from(7u64), Fr::from(13u64), Fr::from(17u64)];
    let mut roots = Vec::with_capacity(n);
    let mut r = Fr::one();
    for _ in 0..n {
        roots.push(r);
        r *= omega;
    }
    // cell id = wire * n + row
    let mut lookup = std::collections::BTreeMap::new();
    for w in 0..4 {
        for (i, root) in roots.iter().enumerate() {
            lookup.insert((ks[w] * root).to_bytes(), w * n + i);
        }
    }
    let mut next = vec![usize::MAX; 4 * n];
    for w in 0..4 {
        for (i, root) in roots.iter().enumerate() {
            let mut acc = Fr::zero();
            for c in sig[w].iter().rev() {
                acc = acc * root + c;
            }
            match lookup.get(&acc.to_bytes()) {
                Some(cell) => next[w * n + i] = *cell,
                None => return Err(format!("sigma_{}(w^{}) is not a cell of the permutation domain", w + 1, i)),
            }
        }
    }
    let mut seen = vec![false; 4 * n];
    for t in &next {
        if seen[*t] {
            return Err("sigma is not a permutation of the cells".into());
        }
        seen[*t] = true;
    }
    // classes of the compiled layout
    let mut class_of = vec![usize::MAX; 4 * n];
    let mut class_size = vec![0usize; compiled.witnesses.len().max(1)];
    for (row, ws) in compiled.wires.iter().enumerate() {
        for (w, wt) in ws.iter().enumerate() {
            class_of[w * n + row] = *wt;
            class_size[*wt] += 1;
        }
    }
    let mut visited = vec![false; 4 * n];
    for start in 0..4 * n {
        if visited[start] {
            continue;
        }
        let cls = class_of[start];
        let mut len = 0;
        let mut c = start;
        loop {
            if class_of[c] != cls {
                return Err(format!("the compiled permutation links cell (row {}, wire {}) to a cell of another witness", start % n, start / n));
            }
            visited[c] = true;
            len += 1;
            c = next[c];
            if c == start {
                break;
            }
            if len > 4 * n {
                return Err("sigma cycle does not close".into());
            }
        }
        let want = if cls == usize::MAX { 1 } else { class_size[cls] };
        if len != want {
            return Err(format!(
                "the cells wired to witness {} form a cycle of length {} in the compiled permutation instead of {} (cell row {}, wire {}): a copy constraint is missing",
                cls as isize,
                len,
                want,
                start % n,
                start / n
            ));
        }
    }
    Ok(())
}

//! Circuit *programs*: sequences of calls of the public composer API (plus raw
//! rows through the `verif_raw` hook), with a witness *tape*.  A program with
//! an empty tape is the default instance the compiler sees; with the real tape
//! it is the proving instance.

use std::cell::RefCell;
use std::sync::Arc;

use dusk_bls12_381::BlsScalar;
use dusk_jubjub::{JubJubAffine, JubJubExtended, JubJubScalar, GENERATOR_EXTENDED};
use dusk_plonk::prelude::*;

use crate::prng::Rng;

pub type Sc = BlsScalar;

/// What an honest tape puts into a scalar slot.
#[derive(Clone, Copy, Debug, PartialEq, Eq)]
pub enum Kind {
    Any,
    Bits(usize),
    Bool,
    /// canonical JubJub scalar (< subgroup order)
    Jub,
}

#[derive(Clone, Debug, PartialEq)]
pub enum Op {
    /// append_witness(tape)
    Input(Kind),
    /// append_constant(c)
    Const(Sc),
    /// append_public(tape)
    Public(Kind),
    /// append_evaluated_output with selectors (m,l,r,o,f,c); `pi`: public input from tape
    EvalOut { q: [Sc; 6], a: usize, b: usize, d: usize, pi: bool },
    GateAdd { l: Sc, r: Sc, f: Sc, c: Sc, a: usize, b: usize, d: usize, pi: bool },
    GateMul { m: Sc, f: Sc, c: Sc, a: usize, b: usize, d: usize, pi: bool },
    /// w = append_witness(value(a)); assert_equal(a, w)
    AssertEqualCopy(usize),
    /// r = append_witness(c); assert_equal_constant(r, c, None)
    AssertEqConst(Sc),
    /// assert_equal_constant(a, c, Some(value(a) - c))
    AssertEqPublic { a: usize, c: Sc },
    /// b = append_witness(tape bool); component_boolean(b)
    Boolean,
    /// component_select(fresh bool, a, b)
    Select(usize, usize),
    SelectOne(usize),
    SelectZero(usize),
    /// fresh input of that width; component_range_bits::<W>
    RangeBits(usize),
    /// fresh input; deprecated component_range::<P>
    RangePairs(usize),
    LogicAnd(usize, usize, usize),
    LogicXor(usize, usize, usize),
    Truncate(usize, usize),
    /// fresh input < 2^N; component_decomposition::<N>
    Decomp(usize),
    /// append_point(tape) + assert_torsion_free_point -> tf reg
    PointInput,
    /// append_point(tape) only -> plain point reg
    PointPlain,
    /// append_constant_point([k]G)
    PointConst(u64),
    /// append_public_point(tape) + assert_torsion_free_point
    PointPublic,
    PointAdd(usize, usize),
    PointSub(usize, usize),
    PointNeg(usize),
    /// component_select_identity(fresh bool input (unconstrained by us), tf)
    PointSelId(usize),
    /// component_select_point(fresh bool, p, q) on plain point regs
    PointSel(usize, usize),
    /// component_mul_point(fresh 252-bit input, tf)
    PointMul(usize),
    /// component_mul_generator(fresh jubjub scalar, [k]G)
    MulGen(u64),
    /// q = append_point(value(p)); assert_equal_point(p, q)
    PointAssertEqCopy(usize),
    /// assert_equal_public_point(p, value(p))
    PointAssertEqPublic(usize),
    /// k rows `0 = 0` with all wires ZERO
    Filler(usize),
    /// raw arithmetic row with arbitrary q_arith; output solved for
    RawArith { q: [Sc; 6], q_arith: Sc, a: usize, b: usize, d: usize, pi: bool },
    /// raw row with all wires ZERO and arbitrary selectors (see DESIGN: zero rows
    /// satisfy every widget identity when the next row's wires are zero too)
    RawZero { q: [Sc; 6], internal: [Sc; 5] },
    /// raw range row over a real quad chain, next row carries d_next
    RawRange { quads: [u8; 4], q: Sc },
    /// w = append_witness(c); assert w == c on two rows exactly `half` rows apart (a fault on w then
    /// violates two rows by the same amount, half a domain apart)
    SymmetricPair { c: Sc, half: usize },
}

impl Op {
    pub fn name(&self) -> &'static str {
        match self {
            Op::Input(_) => "input",
            Op::Const(_) => "const",
            Op::Public(_) => "public",
            Op::EvalOut { .. } => "eval_out",
            Op::GateAdd { .. } => "gate_add",
            Op::GateMul { .. } => "gate_mul",
            Op::AssertEqualCopy(_) => "assert_equal",
            Op::AssertEqConst(_) => "assert_eq_const",
            Op::AssertEqPublic { .. } => "assert_eq_public",
            Op::Boolean => "boolean",
            Op::Select(..) => "select",
            Op::SelectOne(_) => "select_one",
            Op::SelectZero(_) => "select_zero",
            Op::RangeBits(_) => "range_bits",
            Op::RangePairs(_) => "range_pairs",
            Op::LogicAnd(..) => "logic_and",
            Op::LogicXor(..) => "logic_xor",
            Op::Truncate(..) => "truncate",
            Op::Decomp(_) => "decomposition",
            Op::PointInput => "point_input",
            Op::PointPlain => "point_plain",
            Op::PointConst(_) => "point_const",
            Op::PointPublic => "point_public",
            Op::PointAdd(..) => "point_add",
            Op::PointSub(..) => "point_sub",
            Op::PointNeg(_) => "point_neg",
            Op::PointSelId(_) => "select_identity",
            Op::PointSel(..) => "select_point",
            Op::PointMul(_) => "mul_point",
            Op::MulGen(_) => "mul_generator",
            Op::PointAssertEqCopy(_) => "assert_equal_point",
            Op::PointAssertEqPublic(_) => "assert_equal_public_point",
            Op::Filler(_) => "filler",
            Op::RawArith { .. } => "raw_arith",
            Op::RawZero { .. } => "raw_zero",
            Op::RawRange { .. } => "raw_range",
            Op::SymmetricPair { .. } => "symmetric_pair",
        }
    }
}

pub const ALL_OP_NAMES: &[&str] = &[
    "input", "const", "public", "eval_out", "gate_add", "gate_mul", "assert_equal", "assert_eq_const",
    "assert_eq_public", "boolean", "select", "select_one", "select_zero", "range_bits", "range_pairs",
    "logic_and", "logic_xor", "truncate", "decomposition", "point_input", "point_plain", "point_const",
    "point_public", "point_add", "point_sub", "point_neg", "select_identity", "select_point", "mul_point",
    "mul_generator", "assert_equal_point", "assert_equal_public_point", "filler", "raw_arith", "raw_zero",
    "raw_range", "symmetric_pair",
];

#[derive(Clone, Debug, PartialEq)]
pub struct Program {
    pub ops: Vec<Op>,
}

#[derive(Clone, Copy, Debug, PartialEq)]
pub enum TapeVal {
    S(Sc),
    P(JubJubExtended),
}

#[derive(Clone, Debug, PartialEq, Default)]
pub struct Tape(pub Vec<TapeVal>);

#[derive(Clone, Copy, Debug, PartialEq, Eq)]
pub enum Slot {
    S(Kind),
    P,
}

// Width menus: const generics must be monomorphised.
pub const RANGE_BITS: &[usize] = &[
    0, 1, 2, 3, 4, 5, 6, 7, 8, 9, 15, 16, 17, 31, 32, 33, 63, 64, 65, 127, 128, 129, 200, 251, 252, 253, 254, 255,
    256,
];
pub const RANGE_PAIRS: &[usize] = &[0, 1, 2, 3, 4, 8, 16, 32, 64, 127, 128, 129, 200];
pub const LOGIC_PAIRS: &[usize] = &[0, 1, 2, 3, 4, 8, 16, 17, 32, 64, 126, 127];
pub const TRUNC_N: &[usize] = &[0, 1, 2, 3, 7, 8, 16, 31, 32, 64, 65, 128, 200, 252, 253, 254];
pub const DECOMP_N: &[usize] = &[1, 2, 3, 8, 16, 64, 65, 128, 252, 254, 255, 256];

macro_rules! dispatch {
    ($w:expr, [$($n:literal),*], |$W:ident| $body:expr) => {
        match $w {
            $( $n => { const $W: usize = $n; $body } )*
            other => panic!("width {} not in the menu", other),
        }
    };
}

#[allow(deprecated)]
fn range_pairs(c: &mut Composer, w: Witness, p: usize) {
    dispatch!(p, [0, 1, 2, 3, 4, 8, 16, 32, 64, 127, 128, 129, 200], |W| c.component_range::<W>(w))
}

fn range_bits(c: &mut Composer, w: Witness, b: usize) {
    dispatch!(
        b,
        [0, 1, 2, 3, 4, 5, 6, 7, 8, 9, 15, 16, 17, 31, 32, 33, 63, 64, 65, 127, 128, 129, 200, 251, 252, 253, 254, 255, 256],
        |W| c.component_range_bits::<W>(w)
    )
}

fn logic(c: &mut Composer, a: Witness, b: Witness, p: usize, xor: bool) -> Witness {
    dispatch!(p, [0, 1, 2, 3, 4, 8, 16, 17, 32, 64, 126, 127], |W| if xor {
        c.append_logic_xor::<W>(a, b)
    } else {
        c.append_logic_and::<W>(a, b)
    })
}

fn truncate(c: &mut Composer, a: Witness, n: usize) -> Witness {
    dispatch!(n, [0, 1, 2, 3, 7, 8, 16, 31, 32, 64, 65, 128, 200, 252, 253, 254], |W| c.component_truncate::<W>(a))
}

fn decomp(c: &mut Composer, a: Witness, n: usize) -> Vec<Witness> {
    dispatch!(n, [1, 2, 3, 8, 16, 64, 65, 128, 252, 254, 255, 256], |W| c.component_decomposition::<W>(a).to_vec())
}

pub fn gen_mul(k: u64) -> JubJubExtended {
    GENERATOR_EXTENDED * JubJubScalar::from(k)
}

pub fn jub_to_bls(s: &JubJubScalar) -> Sc {
    use dusk_bytes::Serializable;
    Option::<Sc>::from(Sc::from_bytes(&s.to_bytes())).expect("jubjub scalar fits")
}

/// The tape slots a program consumes, in order.
pub fn slots(prog: &Program) -> Vec<Slot> {
    let mut v = Vec::new();
    for op in &prog.ops {
        match op {
            Op::Input(k) | Op::Public(k) => v.push(Slot::S(*k)),
            Op::EvalOut { pi, .. } | Op::GateAdd { pi, .. } | Op::GateMul { pi, .. } | Op::RawArith { pi, .. } => {
                if *pi {
                    v.push(Slot::S(Kind::Any))
                }
            }
            Op::Boolean | Op::Select(..) | Op::SelectOne(_) | Op::SelectZero(_) | Op::PointSelId(_) | Op::PointSel(..) => {
                v.push(Slot::S(Kind::Bool))
            }
            Op::RangeBits(w) => v.push(Slot::S(Kind::Bits(*w))),
            Op::RangePairs(p) => v.push(Slot::S(Kind::Bits((2 * p).min(256)))),
            Op::Decomp(n) => v.push(Slot::S(Kind::Bits(*n))),
            Op::PointInput | Op::PointPlain | Op::PointPublic => v.push(Slot::P),
            Op::PointMul(_) => v.push(Slot::S(Kind::Bits(252))),
            Op::MulGen(_) => v.push(Slot::S(Kind::Jub)),
            Op::RawRange { .. } => v.push(Slot::S(Kind::Bits(16))),
            _ => {}
        }
    }
    v
}

pub fn scalar_of_kind(rng: &mut Rng, k: Kind) -> Sc {
    match k {
        Kind::Any => rng.scalar_edgy(),
        Kind::Bool => Sc::from(rng.below(2)),
        Kind::Bits(w) => {
            if w == 0 {
                return Sc::zero();
            }
            if w >= 255 {
                return rng.scalar_edgy();
            }
            // boundary values over-weighted
            match rng.below(6) {
                0 => Sc::zero(),
                1 => Sc::pow_of_2(w as u64) - Sc::one(),
                2 => Sc::pow_of_2((w - 1) as u64),
                3 => Sc::one(),
                _ => {
                    let mut b = [0u8; 32];
                    rng.fill(&mut b);
                    // keep the low w bits
                    for (i, byte) in b.iter_mut().enumerate() {
                        let lo = i * 8;
                        if lo >= w {
                            *byte = 0;
                        } else if lo + 8 > w {
                            *byte &= (1u16 << (w - lo)) as u8 - 1;
                        }
                    }
                    Option::<Sc>::from(Sc::from_bytes(&b)).unwrap_or(Sc::zero())
                }
            }
        }
        Kind::Jub => {
            let s = match rng.below(5) {
                0 => JubJubScalar::zero(),
                1 => JubJubScalar::one(),
                2 => -JubJubScalar::one(),
                _ => {
                    let mut b = [0u8; 64];
                    rng.fill(&mut b);
                    JubJubScalar::from_bytes_wide(&b)
                }
            };
            jub_to_bls(&s)
        }
    }
}

/// A satisfying tape for the program.
pub fn honest_tape(prog: &Program, rng: &mut Rng) -> Tape {
    let mut t = Vec::new();
    for s in slots(prog) {
        match s {
            Slot::S(k) => t.push(TapeVal::S(scalar_of_kind(rng, k))),
            Slot::P => {
                let k = match rng.below(5) {
                    0 => 0,
                    1 => 1,
                    _ => rng.u64(),
                };
                t.push(TapeVal::P(gen_mul(k)))
            }
        }
    }
    Tape(t)
}

thread_local! {
    /// Expected public inputs (in emission = row order) of the last interpretation.
    static PI_LOG: RefCell<Vec<Sc>> = const { RefCell::new(Vec::new()) };
}

fn pi_log(v: Sc) {
    PI_LOG.with(|l| l.borrow_mut().push(v));
}

/// The public inputs the interpreter handed to the composer during the last
/// `interpret` call on this thread (independent of the composer's own table).
pub fn take_pi_log() -> Vec<Sc> {
    PI_LOG.with(|l| std::mem::take(&mut *l.borrow_mut()))
}

thread_local! {
    /// Re-wired twin: at op `index` the first operand is replaced by a fresh
    /// witness holding `value + delta` (every row stays satisfied, one compiled
    /// copy constraint breaks).
    static TWIN: std::cell::Cell<Option<(usize, Sc)>> = const { std::cell::Cell::new(None) };
}

thread_local! {
    static SYNTH_END_RNG_CALLS: std::cell::Cell<u64> = const { std::cell::Cell::new(0) };
}

/// RNG calls served (since the last reset) at the moment the last circuit
/// synthesis on this thread finished: the prover must not draw before that.
pub fn rng_calls_at_synthesis_end() -> u64 {
    SYNTH_END_RNG_CALLS.with(|c| c.get())
}

pub fn set_twin(t: Option<(usize, Sc)>) {
    TWIN.with(|x| x.set(t));
}

/// Indices of the ops whose first operand can be re-wired.
pub fn twin_sites(prog: &Program) -> Vec<usize> {
    prog.ops
        .iter()
        .enumerate()
        .filter(|(_, op)| matches!(op, Op::EvalOut { q, .. } if q[3] != Sc::zero()) || matches!(op, Op::GateAdd { .. } | Op::GateMul { .. } | Op::RawArith { .. }))
        .map(|(i, _)| i)
        .collect()
}

struct Cursor<'a> {
    tape: &'a Tape,
    pos: usize,
}

impl<'a> Cursor<'a> {
    fn scalar(&mut self) -> Sc {
        let v = match self.tape.0.get(self.pos) {
            Some(TapeVal::S(s)) => *s,
            Some(TapeVal::P(p)) => p.get_u(),
            None => Sc::zero(),
        };
        self.pos += 1;
        v
    }
    fn point(&mut self) -> JubJubExtended {
        let v = match self.tape.0.get(self.pos) {
            Some(TapeVal::P(p)) => *p,
            Some(TapeVal::S(s)) => JubJubExtended::from_raw_unchecked(*s, Sc::one(), Sc::one(), *s, Sc::one()),
            None => JubJubExtended::from(JubJubAffine::identity()),
        };
        self.pos += 1;
        v
    }
}

/// Run the program against a composer.
pub fn interpret(prog: &Program, tape: &Tape, c: &mut Composer) -> Result<(), Error> {
    PI_LOG.with(|l| l.borrow_mut().clear());
    let mut cur = Cursor { tape, pos: 0 };
    let mut s: Vec<Witness> = vec![Composer::ZERO, Composer::ONE];
    let mut p: Vec<WitnessPoint> = vec![WitnessPoint::from(Composer::IDENTITY)];
    let mut tf: Vec<TorsionFreeWitnessPoint> = vec![Composer::IDENTITY];
    macro_rules! sr {
        ($i:expr) => {
            s[$i % s.len()]
        };
    }
    macro_rules! pr {
        ($i:expr) => {
            p[$i % p.len()]
        };
    }
    macro_rules! tr {
        ($i:expr) => {
            tf[$i % tf.len()]
        };
    }
    let twin = TWIN.with(|x| x.get());
    for (op_idx, op) in prog.ops.iter().enumerate() {
        // first operand, possibly re-wired to a fresh witness with another value
        macro_rules! sa {
            ($i:expr) => {{
                let w = sr!($i);
                match twin {
                    Some((at, delta)) if at == op_idx => {
                        let v = c[w] + delta;
                        c.append_witness(v)
                    }
                    _ => w,
                }
            }};
        }
        match op {
            Op::Input(_) => {
                let v = cur.scalar();
                s.push(c.append_witness(v));
            }
            Op::Const(k) => s.push(c.append_constant(*k)),
            Op::Public(_) => {
                let v = cur.scalar();
                pi_log(v);
                s.push(c.append_public(v));
            }
            Op::EvalOut { q, a, b, d, pi } => {
                let mut k = Constraint::new()
                    .mult(q[0])
                    .left(q[1])
                    .right(q[2])
                    .output(q[3])
                    .fourth(q[4])
                    .constant(q[5])
                    .a(sa!(*a))
                    .b(sr!(*b))
                    .d(sr!(*d));
                if *pi {
                    let v = cur.scalar();
                    pi_log(v);
                    k = k.public(v);
                }
                if let Some(w) = c.append_evaluated_output(k) {
                    s.push(w);
                }
            }
            Op::GateAdd { l, r, f, c: qc, a, b, d, pi } => {
                let mut k = Constraint::new().left(*l).right(*r).fourth(*f).constant(*qc).a(sa!(*a)).b(sr!(*b)).d(sr!(*d));
                if *pi {
                    let v = cur.scalar();
                    pi_log(v);
                    k = k.public(v);
                }
                s.push(c.gate_add(k));
            }
            Op::GateMul { m, f, c: qc, a, b, d, pi } => {
                let mut k = Constraint::new().mult(*m).fourth(*f).constant(*qc).a(sa!(*a)).b(sr!(*b)).d(sr!(*d));
                if *pi {
                    let v = cur.scalar();
                    pi_log(v);
                    k = k.public(v);
                }
                s.push(c.gate_mul(k));
            }
            Op::AssertEqualCopy(a) => {
                let wa = sr!(*a);
                let v = c[wa];
                let w = c.append_witness(v);
                c.assert_equal(wa, w);
                s.push(w);
            }
            Op::AssertEqConst(k) => {
                let w = c.append_witness(*k);
                c.assert_equal_constant(w, *k, None);
                s.push(w);
            }
            Op::AssertEqPublic { a, c: k } => {
                let wa = sr!(*a);
                let v = c[wa];
                pi_log(v - *k);
                c.assert_equal_constant(wa, *k, Some(v - *k));
            }
            Op::Boolean => {
                let b = c.append_witness(cur.scalar());
                c.component_boolean(b);
                s.push(b);
            }
            Op::Select(a, b) => {
                let bit = c.append_witness(cur.scalar());
                c.component_boolean(bit);
                let r = c.component_select(bit, sr!(*a), sr!(*b));
                s.push(r);
            }
            Op::SelectOne(a) => {
                let bit = c.append_witness(cur.scalar());
                c.component_boolean(bit);
                let r = c.component_select_one(bit, sr!(*a));
                s.push(r);
            }
            Op::SelectZero(a) => {
                let bit = c.append_witness(cur.scalar());
                c.component_boolean(bit);
                let r = c.component_select_zero(bit, sr!(*a));
                s.push(r);
            }
            Op::RangeBits(w) => {
                let x = c.append_witness(cur.scalar());
                range_bits(c, x, *w);
                s.push(x);
            }
            Op::RangePairs(pp) => {
                let x = c.append_witness(cur.scalar());
                range_pairs(c, x, *pp);
                s.push(x);
            }
            Op::LogicAnd(pp, a, b) => {
                let r = logic(c, sr!(*a), sr!(*b), *pp, false);
                s.push(r);
            }
            Op::LogicXor(pp, a, b) => {
                let r = logic(c, sr!(*a), sr!(*b), *pp, true);
                s.push(r);
            }
            Op::Truncate(n, a) => {
                let r = truncate(c, sr!(*a), *n);
                s.push(r);
            }
            Op::Decomp(n) => {
                let x = c.append_witness(cur.scalar());
                let bits = decomp(c, x, *n);
                s.push(x);
                if let Some(b) = bits.first() {
                    s.push(*b);
                }
            }
            Op::PointInput => {
                let pt = c.append_point(cur.point())?;
                let t = c.assert_torsion_free_point(pt);
                p.push(pt);
                tf.push(t);
            }
            Op::PointPlain => {
                let pt = c.append_point(cur.point())?;
                p.push(pt);
            }
            Op::PointConst(k) => {
                let t = c.append_constant_point(gen_mul(*k))?;
                p.push(t.into());
                tf.push(t);
            }
            Op::PointPublic => {
                let ext = cur.point();
                if ext.get_z() != Sc::zero() {
                    let aff = JubJubAffine::from(ext);
                    pi_log(aff.get_u());
                    pi_log(aff.get_v());
                }
                let pt = c.append_public_point(ext)?;
                let t = c.assert_torsion_free_point(pt);
                p.push(pt);
                tf.push(t);
            }
            Op::PointAdd(i, j) => {
                let t = c.component_add_point(tr!(*i), tr!(*j));
                p.push(t.into());
                tf.push(t);
            }
            Op::PointSub(i, j) => {
                let t = c.component_sub_point(tr!(*i), tr!(*j));
                p.push(t.into());
                tf.push(t);
            }
            Op::PointNeg(i) => {
                let t = c.component_neg_point(tr!(*i));
                p.push(t.into());
                tf.push(t);
            }
            Op::PointSelId(i) => {
                let bit = c.append_witness(cur.scalar());
                let t = c.component_select_identity(bit, tr!(*i));
                p.push(t.into());
                tf.push(t);
            }
            Op::PointSel(i, j) => {
                let bit = c.append_witness(cur.scalar());
                c.component_boolean(bit);
                let r = c.component_select_point(bit, pr!(*i), pr!(*j));
                p.push(r);
            }
            Op::PointMul(i) => {
                let k = c.append_witness(cur.scalar());
                let t = c.component_mul_point(k, tr!(*i));
                p.push(t.into());
                tf.push(t);
            }
            Op::MulGen(k) => {
                let sc = c.append_witness(cur.scalar());
                let t = c.component_mul_generator(sc, gen_mul(*k))?;
                p.push(t.into());
                tf.push(t);
            }
            Op::PointAssertEqCopy(i) => {
                let pt = pr!(*i);
                let (u, v) = (c[*pt.x()], c[*pt.y()]);
                let q = c.append_point(JubJubAffine::from_raw_unchecked(u, v))?;
                c.assert_equal_point(pt, q);
                p.push(q);
            }
            Op::PointAssertEqPublic(i) => {
                let pt = pr!(*i);
                let (u, v) = (c[*pt.x()], c[*pt.y()]);
                pi_log(u);
                pi_log(v);
                c.assert_equal_public_point(pt, JubJubAffine::from_raw_unchecked(u, v))?;
            }
            Op::Filler(k) => {
                for _ in 0..*k {
                    c.append_gate(Constraint::new());
                }
            }
            Op::RawArith { q, q_arith, a, b, d, pi } => {
                let (wa, wb, wd) = (sa!(*a), sr!(*b), sr!(*d));
                let (va, vb, vd) = (c[wa], c[wb], c[wd]);
                let piv = if *pi { cur.scalar() } else { Sc::zero() };
                if *pi {
                    pi_log(piv);
                }
                // q_arith * (m ab + l a + r b + o c + f d + qc) + pi = 0
                let rest = q[0] * va * vb + q[1] * va + q[2] * vb + q[4] * vd + q[5];
                let qa_inv = Option::<Sc>::from(q_arith.invert()).unwrap_or(Sc::zero());
                let qo_inv = Option::<Sc>::from(q[3].invert()).unwrap_or(Sc::zero());
                let out = -(piv * qa_inv + rest) * qo_inv;
                let wc = c.append_witness(out);
                let mut k = Constraint::new()
                    .mult(q[0])
                    .left(q[1])
                    .right(q[2])
                    .output(q[3])
                    .fourth(q[4])
                    .constant(q[5])
                    .a(wa)
                    .b(wb)
                    .c(wc)
                    .d(wd);
                if *pi {
                    k = k.public(piv);
                }
                c.append_custom_gate(k.verif_raw([*q_arith, Sc::zero(), Sc::zero(), Sc::zero(), Sc::zero()]));
                s.push(wc);
            }
            Op::RawZero { q, internal } => {
                let k = Constraint::new()
                    .mult(q[0])
                    .left(q[1])
                    .right(q[2])
                    .output(q[3])
                    .fourth(q[4])
                    .constant(q[5])
                    .verif_raw(*internal);
                c.append_custom_gate(k);
            }
            Op::SymmetricPair { c: k, half } => {
                let w = c.append_witness(*k);
                c.assert_equal_constant(w, *k, None);
                for _ in 0..half.saturating_sub(1) {
                    c.append_gate(Constraint::new());
                }
                c.assert_equal_constant(w, *k, None);
                s.push(w);
            }
            Op::RawRange { quads, q } => {
                let four = Sc::from(4u64);
                let vd = cur.scalar();
                let vc = four * vd + Sc::from(quads[0] as u64);
                let vb = four * vc + Sc::from(quads[1] as u64);
                let va = four * vb + Sc::from(quads[2] as u64);
                let vn = four * va + Sc::from(quads[3] as u64);
                let wd = c.append_witness(vd);
                let wc = c.append_witness(vc);
                let wb = c.append_witness(vb);
                let wa = c.append_witness(va);
                let wn = c.append_witness(vn);
                let k = Constraint::new().a(wa).b(wb).c(wc).d(wd).verif_raw([
                    Sc::zero(),
                    *q,
                    Sc::zero(),
                    Sc::zero(),
                    Sc::zero(),
                ]);
                c.append_custom_gate(k);
                // next row carries d_next
                c.append_gate(Constraint::new().d(wn));
                s.push(wn);
            }
        }
    }
    SYNTH_END_RNG_CALLS.with(|c| c.set(crate::seams::rng_calls()));
    Ok(())
}

// ------------------------------------------------------------------ Circuit

// process-global (not thread-local): under the real-rayon probe `C::default()` may run on a pool thread
static CURRENT: std::sync::Mutex<Option<Arc<Program>>> = std::sync::Mutex::new(None);

/// The program `ProgCircuit::default()` (and therefore `Compiler::compile::<C>`
/// and `Circuit::compress()`) refers to.
pub fn set_current(p: Option<Arc<Program>>) {
    *CURRENT.lock().unwrap_or_else(|e| e.into_inner()) = p;
}

#[derive(Clone, Debug)]
pub struct ProgCircuit {
    pub prog: Arc<Program>,
    pub tape: Tape,
}

impl Default for ProgCircuit {
    fn default() -> Self {
        let prog = CURRENT.lock().unwrap_or_else(|e| e.into_inner()).clone().expect("current program set");
        ProgCircuit { prog, tape: Tape::default() }
    }
}

impl Circuit for ProgCircuit {
    fn circuit(&self, composer: &mut Composer) -> Result<(), Error> {
        interpret(&self.prog, &self.tape, composer)
    }
}

/// Synthesise the program on a fresh composer and snapshot the result.
pub fn snapshot_of(prog: &Program, tape: &Tape) -> Result<dusk_plonk::verif::Snapshot, Error> {
    let mut c = Composer::initialized();
    interpret(prog, tape, &mut c)?;
    Ok(c.verif_snapshot())
}

/// Constraint count of the program (default instance); None if synthesis fails.
pub fn count_constraints(prog: &Program) -> Option<usize> {
    let mut c = Composer::initialized();
    interpret(prog, &Tape::default(), &mut c).ok()?;
    Some(c.constraints())
}

// ---------------------------------------------------------------- generator

#[derive(Clone, Debug)]
pub struct GenCfg {
    /// exact constraint count wanted (padded with Filler); None = whatever comes out
    pub target: Option<usize>,
    /// upper bound of ops
    pub max_ops: usize,
    /// allow heavy ops (mul_point ~3.8k gates, mul_generator ~0.6k gates)
    pub heavy: bool,
    /// probability (in 1/16) that an arithmetic op carries a public input
    pub pi_density: u64,
    /// enabled op kinds (swarm): indices into the generator's menu
    pub enabled: u64,
    /// allow raw rows
    pub raw: bool,
    /// place a raw zero row with selectors on the very last row
    pub raw_last: bool,
}

thread_local! {
    /// Extra constants the generator mixes into selectors (C15: the compressor's built-in table).
    static CONST_POOL: RefCell<Vec<Sc>> = const { RefCell::new(Vec::new()) };
}

pub fn set_const_pool(v: Vec<Sc>) {
    CONST_POOL.with(|p| *p.borrow_mut() = v);
}

/// The compressor's built-in constant table (Hades round constants and MDS
/// matrix), regenerated from its published recipe.
pub fn hades_table() -> Vec<Sc> {
    use sha2::{Digest, Sha512};
    let mut out = Vec::new();
    let mut p = Sc::one();
    let mut bytes = b"poseidon-for-plonk".to_vec();
    for _ in 0..(59 + 8) * 5 {
        bytes = Sha512::digest(bytes.as_slice()).to_vec();
        let mut v = [0u8; 64];
        v.copy_from_slice(&bytes[0..64]);
        let c = Sc::from_bytes_wide(&v) + p;
        p = c;
        out.push(c);
    }
    for i in 0..5u64 {
        for j in 0..5u64 {
            out.push(Option::<Sc>::from((Sc::from(i) + Sc::from(j + 5)).invert()).unwrap());
        }
    }
    out
}

thread_local! {
    /// When set, selectors are (almost always) fresh random field elements: circuits whose
    /// description carries many distinct scalars per row (C15's scalar-dictionary bounds).
    static DENSE_SELECTORS: std::cell::Cell<bool> = const { std::cell::Cell::new(false) };
}

pub fn set_dense_selectors(on: bool) {
    DENSE_SELECTORS.with(|d| d.set(on));
}

pub fn small_sel(rng: &mut Rng) -> Sc {
    if DENSE_SELECTORS.with(|d| d.get()) && rng.chance(7, 8) {
        return rng.scalar();
    }
    let pooled = CONST_POOL.with(|p| {
        let p = p.borrow();
        if !p.is_empty() && rng.chance(1, 5) {
            Some(p[rng.usize(p.len())])
        } else {
            None
        }
    });
    if let Some(c) = pooled {
        return c;
    }
    match rng.below(8) {
        0 => Sc::zero(),
        1 => Sc::one(),
        2 => -Sc::one(),
        3 => Sc::from(rng.below(8)),
        4 => -Sc::from(rng.below(8)),
        _ => rng.scalar(),
    }
}

fn nonzero_sel(rng: &mut Rng) -> Sc {
    match rng.below(4) {
        0 => Sc::one(),
        1 => -Sc::one(),
        2 => Sc::from(2 + rng.below(6)),
        _ => {
            let s = rng.scalar();
            if s == Sc::zero() {
                Sc::one()
            } else {
                s
            }
        }
    }
}

const N_MENU: usize = 36;

/// One random op from the enabled menu.  `ns`: scalar regs so far (for index draws).
fn gen_op(rng: &mut Rng, cfg: &GenCfg) -> Op {
    loop {
        let mut k = rng.usize(N_MENU);
        // dense-selector programs: mostly rows that carry up to eleven selector values of their own
        if DENSE_SELECTORS.with(|d| d.get()) && rng.chance(3, 4) {
            k = *rng.pick(&[3usize, 4, 5, 33, 33, 34, 34, 8]);
        }
        if cfg.enabled & (1u64 << k) == 0 {
            continue;
        }
        let pi = rng.chance(cfg.pi_density, 16);
        let r = |rng: &mut Rng| rng.usize(64);
        let op = match k {
            0 => Op::Input(*rng.pick(&[Kind::Any, Kind::Any, Kind::Bool, Kind::Bits(8), Kind::Bits(64)])),
            1 => Op::Const(rng.scalar_edgy()),
            2 => Op::Public(*rng.pick(&[Kind::Any, Kind::Any, Kind::Bits(0), Kind::Bool])),
            3 => {
                let mut q = [small_sel(rng), small_sel(rng), small_sel(rng), nonzero_sel(rng), small_sel(rng), small_sel(rng)];
                if rng.chance(1, 8) {
                    q[3] = Sc::zero();
                    // with q_o = 0 the row constrains its inputs: keep it satisfiable -> all-zero inputs, no constant
                    q[5] = Sc::zero();
                    Op::EvalOut { q, a: 0, b: 0, d: 0, pi: false }
                } else {
                    Op::EvalOut { q, a: r(rng), b: r(rng), d: r(rng), pi }
                }
            }
            4 => Op::GateAdd { l: small_sel(rng), r: small_sel(rng), f: small_sel(rng), c: small_sel(rng), a: r(rng), b: r(rng), d: r(rng), pi },
            5 => Op::GateMul { m: small_sel(rng), f: small_sel(rng), c: small_sel(rng), a: r(rng), b: r(rng), d: r(rng), pi },
            6 => Op::AssertEqualCopy(r(rng)),
            7 => Op::AssertEqConst(rng.scalar_edgy()),
            8 => Op::AssertEqPublic { a: r(rng), c: small_sel(rng) },
            9 => Op::Boolean,
            10 => Op::Select(r(rng), r(rng)),
            11 => Op::SelectOne(r(rng)),
            12 => Op::SelectZero(r(rng)),
            13 => Op::RangeBits(*rng.pick(RANGE_BITS)),
            14 => Op::RangePairs(*rng.pick(RANGE_PAIRS)),
            15 => Op::LogicAnd(*rng.pick(LOGIC_PAIRS), r(rng), r(rng)),
            16 => Op::LogicXor(*rng.pick(LOGIC_PAIRS), r(rng), r(rng)),
            17 => Op::Truncate(*rng.pick(TRUNC_N), r(rng)),
            18 => Op::Decomp(*rng.pick(DECOMP_N)),
            19 => Op::PointInput,
            20 => Op::PointPlain,
            21 => Op::PointConst(match rng.below(3) {
                0 => 0,
                1 => 1,
                _ => rng.u64(),
            }),
            22 => Op::PointPublic,
            23 => Op::PointAdd(r(rng), r(rng)),
            24 => Op::PointSub(r(rng), r(rng)),
            25 => Op::PointNeg(r(rng)),
            26 => Op::PointSelId(r(rng)),
            27 => Op::PointSel(r(rng), r(rng)),
            28 => {
                if !cfg.heavy {
                    continue;
                }
                Op::PointMul(r(rng))
            }
            29 => {
                if !cfg.heavy {
                    continue;
                }
                Op::MulGen(1 + rng.below(1 << 20))
            }
            30 => Op::PointAssertEqCopy(r(rng)),
            31 => Op::PointAssertEqPublic(r(rng)),
            32 => Op::Filler(1 + rng.usize(3)),
            33 => {
                if !cfg.raw {
                    continue;
                }
                let q = [small_sel(rng), small_sel(rng), small_sel(rng), nonzero_sel(rng), small_sel(rng), small_sel(rng)];
                Op::RawArith { q, q_arith: nonzero_sel(rng), a: r(rng), b: r(rng), d: r(rng), pi }
            }
            34 => {
                if !cfg.raw {
                    continue;
                }
                gen_raw_zero(rng)
            }
            _ => {
                if !cfg.raw {
                    continue;
                }
                // the selector value itself is arbitrary (non-zero): the widget multiplies by it
                let q = if rng.chance(1, 2) { Sc::one() } else { nonzero_sel(rng) };
                Op::RawRange { quads: [rng.below(4) as u8, rng.below(4) as u8, rng.below(4) as u8, rng.below(4) as u8], q }
            }
        };
        return op;
    }
}

/// A zero-wire row with arbitrary selector combination that every widget
/// identity satisfies (q_arith * q_c must vanish since PI is not used here).
pub fn gen_raw_zero(rng: &mut Rng) -> Op {
    let mut q = [small_sel(rng), small_sel(rng), small_sel(rng), small_sel(rng), small_sel(rng), small_sel(rng)];
    let mut internal = [Sc::zero(); 5];
    for i in internal.iter_mut() {
        if rng.chance(1, 2) {
            *i = small_sel(rng);
        }
    }
    if internal[0] != Sc::zero() && q[5] != Sc::zero() {
        if rng.chance(1, 2) {
            internal[0] = Sc::zero();
        } else {
            q[5] = Sc::zero();
        }
    }
    Op::RawZero { q, internal }
}

/// Generate a program.  With `cfg.target = Some(c)` the result has exactly `c`
/// constraints (or the function returns None if that is impossible).
pub fn generate(rng: &mut Rng, cfg: &GenCfg) -> Option<Program> {
    let mut prog = Program { ops: Vec::new() };
    let base = count_constraints(&prog)?; // dummy gates of Composer::initialized()
    let target = cfg.target;
    if let Some(t) = target {
        if t < base {
            return None;
        }
    }
    let n_ops = 1 + rng.usize(cfg.max_ops.max(1));
    // a raw row on the very last row needs room for itself
    let raw_last = cfg.raw_last && target.map(|t| t > base).unwrap_or(true);
    let reserve = if raw_last { 1 } else { 0 };
    let mut count = base;
    for _ in 0..n_ops {
        let op = gen_op(rng, cfg);
        // a row with a public input directly followed by (or following) the same selector tuple
        // without one: descriptions that share one polynomial between the two kinds of rows
        // ... or two adjacent rows that agree in every selector but one (the fourth-wire selector,
        // the constant): descriptions in which neighbouring selector tuples are almost equal
        let almost = match &op {
            Op::GateAdd { l, r, f, c, a, b, d, pi } if rng.chance(1, 8) => {
                if rng.chance(1, 2) {
                    Some(Op::GateAdd { l: *l, r: *r, f: *f + Sc::one(), c: *c, a: *a, b: *b, d: *d, pi: *pi })
                } else {
                    Some(Op::GateAdd { l: *l, r: *r, f: *f, c: *c + Sc::one(), a: *a, b: *b, d: *d, pi: *pi })
                }
            }
            Op::GateMul { m, f, c, a, b, d, pi } if rng.chance(1, 8) => Some(Op::GateMul { m: *m, f: *f + Sc::one(), c: *c, a: *a, b: *b, d: *d, pi: *pi }),
            _ => None,
        };
        let twin = match &op {
            _ if almost.is_some() => almost,
            Op::EvalOut { q, a, b, d, pi } if q[3] != Sc::zero() && rng.chance(1, 4) => Some(Op::EvalOut { q: *q, a: *a, b: *b, d: *d, pi: !*pi }),
            Op::GateAdd { l, r, f, c, a, b, d, pi } if rng.chance(1, 4) => Some(Op::GateAdd { l: *l, r: *r, f: *f, c: *c, a: *a, b: *b, d: *d, pi: !*pi }),
            Op::GateMul { m, f, c, a, b, d, pi } if rng.chance(1, 4) => Some(Op::GateMul { m: *m, f: *f, c: *c, a: *a, b: *b, d: *d, pi: !*pi }),
            _ => None,
        };
        prog.ops.push(op);
        if let Some(t) = twin {
            prog.ops.push(t);
        }
        // a raw zero row needs a zero row after it
        if matches!(prog.ops.last(), Some(Op::RawZero { .. })) {
            prog.ops.push(Op::Filler(1));
        }
        match count_constraints(&prog) {
            Some(c) => {
                if let Some(t) = target {
                    if c + reserve > t {
                        // undo and stop
                        while !prog.ops.is_empty() && count_constraints(&prog).map(|c| c + reserve > t).unwrap_or(true) {
                            prog.ops.pop();
                        }
                        break;
                    }
                }
                count = c;
            }
            None => {
                prog.ops.pop();
            }
        }
    }
    count = count_constraints(&prog)?;
    if let Some(t) = target {
        let missing = t - reserve - count;
        if missing > 0 {
            // padding rows go in front of the program half of the time, so that real rows
            // (public inputs, gadget rows, raw rows) end up on the last rows of the domain
            if rng.chance(1, 2) {
                prog.ops.insert(0, Op::Filler(missing));
            } else {
                prog.ops.push(Op::Filler(missing));
            }
        }
    }
    if raw_last {
        prog.ops.push(gen_raw_zero(rng));
    }
    if let Some(t) = target {
        if count_constraints(&prog)? != t {
            return None;
        }
    }
    Some(prog)
}

pub fn default_enabled(rng: &mut Rng) -> u64 {
    // swarm: each kind enabled with probability 1/2, at least a few always on
    let mut m = rng.u64() & ((1u64 << N_MENU) - 1);
    m |= 0b1_1001; // input, eval_out, gate_add
    m
}

pub fn describe(prog: &Program) -> String {
    let mut s = String::new();
    for (i, op) in prog.ops.iter().enumerate() {
        if i > 0 {
            s.push(' ');
        }
        match op {
            Op::Filler(k) => s.push_str(&format!("filler*{}", k)),
            Op::RangeBits(w) => s.push_str(&format!("range_bits<{}>", w)),
            Op::RangePairs(w) => s.push_str(&format!("range<{}>", w)),
            Op::LogicAnd(p, ..) => s.push_str(&format!("and<{}>", p)),
            Op::LogicXor(p, ..) => s.push_str(&format!("xor<{}>", p)),
            Op::Truncate(n, _) => s.push_str(&format!("truncate<{}>", n)),
            Op::Decomp(n) => s.push_str(&format!("decomposition<{}>", n)),
            other => s.push_str(other.name()),
        }
    }
    s
}

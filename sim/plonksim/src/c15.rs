//! C15 — compressed circuit descriptions compile to the identical keys, the two
//! routes succeed or fail for exactly the same capacities, and decompression is
//! bounded by the capacity of the supplied parameters.
//!
//! I-route: for every generated program x label x capacity (too small, exactly
//! enough, ample) both routes, run under independently chosen environments
//! (pool, schedule, hash stream — the compressor's dictionaries are hash
//! maps), give byte-identical `Prover::to_bytes` / `Verifier::to_bytes`, or
//! fail both.  Boundedness: hostile descriptions (structure-aware edits and
//! the disk catalogue) are rejected, or accepted and usable, within an
//! allocation budget proportional to the parameters' capacity, without panic.

use dusk_plonk::prelude::*;

use crate::c17::{self, Obj};
use crate::compressed::{self, CcEdit};
use crate::deploy::{self, Route};
use crate::disk;
use crate::framework::{progress_case, RunCtx, Violation};
use crate::json::J;
use crate::prng::digest;
use crate::scenario::{gen_scenario, pick_class, scenario_sig, ScenCfg, SizeClass};
use crate::seams::guarded;

pub fn run(ctx: &mut RunCtx) -> Result<(), Violation> {
    let mut w = ctx.stream("workload");
    let mut s = ctx.stream("sched");
    let mut f = ctx.stream("faults");
    // selectors equal to entries of the compressor's built-in constant table
    if w.chance(1, 2) {
        // the 25 MDS entries (with their repeated values) are as likely as the 335 round constants
        let t = crate::program::hades_table();
        let mut pool = t.clone();
        for _ in 0..13 {
            pool.extend_from_slice(&t[335..]);
        }
        crate::program::set_const_pool(pool);
        ctx.st.probe("programs_with_builtin_table_constants");
    } else {
        crate::program::set_const_pool(Vec::new());
    }
    // descriptions with many distinct scalars per row (up to 11 per constraint are legal)
    let dense = w.chance(1, 4);
    crate::program::set_dense_selectors(dense);
    if dense {
        ctx.st.probe("programs_with_dense_random_selectors");
    }
    let class = if ctx.thorough { pick_class(&mut w, [8, 5, 3, 1]) } else { pick_class(&mut w, [10, 4, 1, 0]) };
    let sc = gen_scenario(ctx, &mut w, &ScenCfg { class, heavy: false, raw: true, exact_target: true, max_ops: 32 });
    crate::program::set_const_pool(Vec::new());
    crate::program::set_dense_selectors(false);
    let sig = scenario_sig(&sc);
    let min_deg = deploy::min_degree_for(sc.constraints);

    // capacities from too small through exactly enough to ample
    let mut degrees: Vec<usize> = vec![min_deg.saturating_sub(1).max(1), min_deg, min_deg + 1];
    match w.below(4) {
        0 => degrees.push((min_deg / 2).max(1)),
        1 => degrees.push(min_deg * 2),
        2 => degrees.push(min_deg * 2 - 1),
        _ => degrees.push(min_deg.saturating_sub(7).max(1)),
    }
    if class == SizeClass::Large {
        degrees.truncate(2);
    }
    let mut valid_cc: Option<Vec<u8>> = None;
    for deg in degrees {
        let pp = deploy::pp_with_degree(deg);
        let env_a = ctx.env(&mut s);
        let env_b = ctx.env(&mut s);
        let direct_route = if s.chance(1, 2) { Route::WithCircuit } else { Route::Default };
        ctx.st.steps += 2;
        let a = guarded(|| deploy::compile(&pp, &sc.label, &sc.prog, direct_route, &env_a));
        let b = guarded(|| deploy::compile(&pp, &sc.label, &sc.prog, Route::Compressed, &env_b));
        let (a, b) = match (a, b) {
            (Ok(a), Ok(b)) => (a, b),
            (Err(p), _) | (_, Err(p)) => return Err(Violation::new("panic", format!("compilation panicked (degree {}): {}", deg, p))),
        };
        ctx.st.eval(sig ^ (deg as u64) << 32 ^ digest(env_b.describe().as_bytes()), true);
        let rel = if deg < min_deg { "too_small" } else if deg == min_deg { "exactly_enough" } else { "ample" };
        ctx.st.probe(&format!("capacity_{}", rel));
        match (a, b) {
            (Ok((pa, va)), Ok((pb, vb))) => {
                if deg < min_deg {
                    return Err(Violation::new("I-route", format!("both routes compiled {} constraints with parameters of degree {} (needs {})", sc.constraints, deg, min_deg)));
                }
                if pa.to_bytes() != pb.to_bytes() {
                    return Err(Violation::new(
                        "I-route",
                        format!("Prover::to_bytes differs between the direct ({:?}, {}) and the compressed ({}) route, degree {}", direct_route, env_a.describe(), env_b.describe(), deg),
                    ));
                }
                if va.to_bytes() != vb.to_bytes() {
                    return Err(Violation::new(
                        "I-route",
                        format!("Verifier::to_bytes differs between the direct ({:?}, {}) and the compressed ({}) route, degree {}", direct_route, env_a.describe(), env_b.describe(), deg),
                    ));
                }
                ctx.st.probe("routes_agree_ok");
            }
            (Err(_), Err(_)) => {
                if deg >= min_deg {
                    return Err(Violation::new("I-route", format!("both routes reject {} constraints although degree {} admits them", sc.constraints, deg)));
                }
                ctx.st.probe("routes_agree_err");
            }
            (Ok(_), Err(e)) => {
                return Err(Violation::new(
                    "I-route",
                    format!("the direct route succeeds and the compressed route fails ({:?}) for {} constraints at degree {}", e, sc.constraints, deg),
                ))
            }
            (Err(e), Ok(_)) => {
                return Err(Violation::new(
                    "I-route",
                    format!("the compressed route succeeds and the direct route fails ({:?}) for {} constraints at degree {}", e, sc.constraints, deg),
                ))
            }
        }
    }

    // ---- hostile descriptions
    if class != SizeClass::Tiny || ctx.spec.flag("nohostile") {
        return Ok(());
    }
    ctx.hints.extra.push(("nohostile".into(), "1".into()));
    let fx = match c17::fixture(sc.prog.clone(), sc.tape.clone(), sc.label.clone(), sc.degree, sc.rng_seed) {
        Some(f) => f,
        None => return Ok(()),
    };
    if valid_cc.is_none() {
        valid_cc = Some(fx.files[4].clone());
    }
    let valid = valid_cc.unwrap();
    let n_cases = if ctx.thorough { 60 } else { 30 };
    ctx.hints.n_faults = n_cases;
    let keep = if ctx.spec.get("keepf").is_some() { Some(ctx.spec.list("keepf")) } else { None };
    let mut shown = 0;
    for k in 0..n_cases {
        let structural = f.chance(3, 4);
        let (bytes, what, kind, must_reject) = if structural {
            let e = compressed::random_edit(&mut f);
            match compressed::apply(&valid, &e, &mut f) {
                Some(b) => {
                    let mut must = e.must_reject();
                    if let CcEdit::ExtraConstraints(x) = e {
                        must = sc.constraints + x > fx.max_constraints;
                    }
                    (b, format!("{:?}", e), e.kind().to_string(), must)
                }
                None => continue,
            }
        } else {
            let fault = disk::random_fault(&mut f, valid.len(), None);
            let b = disk::apply(&valid, &fault, Some(&fx.old[4]), Some(&fx.files[1]));
            (b, format!("{:?}", fault).chars().take(100).collect(), fault.kind().to_string(), false)
        };
        let env = ctx.env(&mut s);
        if let Some(kf) = &keep {
            if !kf.contains(&k) {
                continue;
            }
        }
        progress_case(ctx.prop, ctx.run, k, &what);
        ctx.st.fault(&kind);
        ctx.note("fault", J::s(what.clone()));
        let accepted = c17::decode_case(ctx, &fx, Obj::Compressed, &bytes, &what, &env)?;
        ctx.st.eval(digest(&bytes) ^ digest(kind.as_bytes()), bytes != valid);
        if accepted && must_reject {
            return Err(Violation::new("I-robust", format!("a malformed compressed description ({}) was accepted", what)));
        }
        if shown < 2 {
            shown += 1;
            ctx.st.sample(J::obj(vec![
                ("run", J::U(ctx.run)),
                ("program", J::s(crate::program::describe(&sc.prog))),
                ("constraints", J::U(sc.constraints as u64)),
                ("hostile_edit", J::s(what)),
                ("accepted", J::Bool(accepted)),
                ("capacity_max_constraints", J::U(fx.max_constraints as u64)),
            ]));
        }
    }
    Ok(())
}

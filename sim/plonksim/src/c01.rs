//! C01 — completeness.  The fault-free control configuration of the deployment
//! simulation: every key route, keys used directly or after a restart, every
//! pool / schedule / hash stream, boundary constraint counts and public-input
//! placements.  I-valid: if compilation returned Ok, proving is Ok, the
//! returned public inputs are the ones the circuit instance supplied, and both
//! the real and the reference verifier accept.

use dusk_plonk::prelude::*;

use crate::channel::Msg;
use crate::deploy::{self, proof_bytes, ROUTES};
use crate::framework::{RunCtx, Violation};
use crate::json::J;
use crate::mirror::{deliver, VerifierNode};
use crate::prng::digest;
use crate::scenario::{gen_scenario, pick_class, scenario_sig, ScenCfg, SizeClass};
use crate::seams::ScriptedRng;

pub fn run(ctx: &mut RunCtx) -> Result<(), Violation> {
    let mut w = ctx.stream("workload");
    let mut s = ctx.stream("sched");
    let class = if ctx.thorough { pick_class(&mut w, [8, 5, 4, 1]) } else { pick_class(&mut w, [10, 4, 2, 0]) };
    let heavy = w.chance(1, 3);
    // a steady share of runs proves a circuit with hundreds to thousands of public inputs
    if ctx.run % 150 == 77 || (ctx.thorough && ctx.run % 50 == 27) {
        let k = crate::scenario::pi_heavy_count(&mut w);
        crate::scenario::set_pi_heavy(Some(k));
    }
    let sc = gen_scenario(ctx, &mut w, &ScenCfg { class, heavy, raw: true, exact_target: true, max_ops: 40 });
    let sig = scenario_sig(&sc);
    let version = if w.chance(1, 4) { PlonkVersion::V2 } else { PlonkVersion::V3 };
    let route = if let Some(r) = ctx.spec.u64("route") { ROUTES[r as usize % 3] } else { *w.pick(&ROUTES) };
    let restart_prover = w.chance(1, 2) && !ctx.spec.flag("norestart");
    let restart_verifier = w.chance(1, 2) && !ctx.spec.flag("norestart");
    ctx.hints.extra.push(("norestart".into(), "1".into()));
    ctx.hints.extra.push(("route".into(), "0".into()));
    ctx.note("route", J::s(format!("{:?}", route)));
    ctx.note("version", J::s(deploy::version_name(version)));
    ctx.note("restart", J::s(format!("prover={} verifier={}", restart_prover, restart_verifier)));

    let pp = deploy::pp_with_degree(sc.degree);
    let env_c = ctx.env(&mut s);
    ctx.st.steps += 1;
    let (prover, verifier) = match deploy::compile(&pp, &sc.label, &sc.prog, route, &env_c) {
        Ok(k) => k,
        Err(e) => {
            // compile is only required to succeed when the parameters admit the circuit
            if sc.degree >= deploy::min_degree_for(sc.constraints) {
                return Err(Violation::new(
                    "I-valid",
                    format!("compilation failed although the parameters admit the circuit: {:?} (constraints={}, degree={}, route={:?})", e, sc.constraints, sc.degree, route),
                ));
            }
            return Ok(());
        }
    };
    let prover = if restart_prover {
        ctx.st.probe("restart_prover");
        Prover::try_from_bytes(prover.to_bytes()).map_err(|e| Violation::new("I-valid", format!("restarted prover does not load its own bytes: {:?}", e)))?
    } else {
        prover
    };
    let verifier = if restart_verifier {
        ctx.st.probe("restart_verifier");
        Verifier::try_from_bytes(verifier.to_bytes())
            .map_err(|e| Violation::new("I-valid", format!("restarted verifier does not load its own bytes: {:?}", e)))?
    } else {
        verifier
    };
    let node = VerifierNode::new(verifier)?;

    let n_proofs = if class == SizeClass::Tiny { 2 } else { 1 };
    for k in 0..n_proofs {
        let env_p = ctx.env(&mut s);
        let mut rng = ScriptedRng::new(sc.rng_seed ^ k);
        ctx.st.steps += 1;
        let res = deploy::prove(&prover, &sc.prog, &sc.tape, &mut rng, version, &env_p);
        let expected_pi = crate::program::take_pi_log();
        let nontrivial = restart_prover || restart_verifier || !env_p.is_canonical() || route != deploy::Route::WithCircuit;
        ctx.st.eval(sig ^ digest(env_p.describe().as_bytes()) ^ (route as u64) << 3 ^ k, nontrivial);
        let (proof, pi) = match res {
            Ok(x) => x,
            Err(e) => {
                return Err(Violation::new(
                    "I-valid",
                    format!("honest proving failed: {:?} under [{}] route={:?} version={}", e, env_p.describe(), route, deploy::version_name(version)),
                ))
            }
        };
        if pi != expected_pi {
            return Err(Violation::new(
                "I-valid",
                format!("prover returned {} public inputs that differ from the {} the circuit instance supplied", pi.len(), expected_pi.len()),
            ));
        }
        if !pi.is_empty() {
            ctx.st.probe("proofs_with_public_inputs");
        }
        let msg = Msg { proof: proof_bytes(&proof), pi, version };
        let env_v = ctx.env(&mut s);
        let d = deliver(ctx, &node, &msg, version, &env_v)?;
        if !d.accepted() {
            return Err(Violation::new(
                "I-valid",
                format!("honest proof rejected: {:?} under [{}] route={:?} version={} constraints={} degree={}", d, env_v.describe(), route, deploy::version_name(version), sc.constraints, sc.degree),
            ));
        }
    }
    // degenerate RNG draws are outside the property's guarantee of success, but proving must
    // still return (Ok or Err) and an Ok proof must verify
    if w.chance(1, 8) {
        let which = w.usize(14);
        let bytes = if w.chance(1, 2) { vec![0u8; 64] } else { vec![0xffu8; 64] };
        let mut rng = ScriptedRng::with_subst(sc.rng_seed ^ 0xD, vec![(which, bytes)]);
        let env_p = ctx.env(&mut s);
        ctx.st.fault("rng.degenerate_draw");
        match crate::seams::guarded(|| deploy::prove(&prover, &sc.prog, &sc.tape, &mut rng, version, &env_p)) {
            Err(p) => return Err(Violation::new("panic", format!("proving panicked on a degenerate RNG draw (draw {}): {}", which, p))),
            Ok(Err(_)) => ctx.st.probe("degenerate_draw=>Err"),
            Ok(Ok((proof, pi))) => {
                ctx.st.probe("degenerate_draw=>proof");
                let msg = Msg { proof: proof_bytes(&proof), pi, version };
                let env_v = ctx.env(&mut s);
                let d = deliver(ctx, &node, &msg, version, &env_v)?;
                if !d.accepted() {
                    return Err(Violation::new("I-valid", format!("a proof produced under a degenerate RNG draw (draw {}) is rejected: {:?}", which, d)));
                }
            }
        }
    }
    let c = sc.constraints;
    let npot = c.next_power_of_two();
    if c == npot {
        ctx.st.probe("full_domain(c=2^k)");
        if !matches!(sc.prog.ops.last(), Some(crate::program::Op::Filler(_))) {
            ctx.st.probe("full_domain_with_a_real_row_last");
        }
    }
    if (c + 6).next_power_of_two() > npot {
        ctx.st.probe("key_trimmed_for_2^(k+1)_domain_2^k");
    }
    if sc.degree == deploy::min_degree_for(c) {
        ctx.st.probe("srs_exactly_sufficient");
    }
    ctx.st.sample(J::obj(vec![
        ("run", J::U(ctx.run)),
        ("program", J::s(crate::program::describe(&sc.prog))),
        ("constraints", J::U(c as u64)),
        ("srs_degree", J::U(sc.degree as u64)),
        ("route", J::s(format!("{:?}", route))),
        ("version", J::s(deploy::version_name(version))),
        ("restart_prover", J::Bool(restart_prover)),
        ("restart_verifier", J::Bool(restart_verifier)),
    ]));
    Ok(())
}

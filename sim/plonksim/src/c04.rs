//! C04 — a proof binds its statement.  Channel faults on the public-input
//! vector, misrouting to verifiers of near-miss circuits / other labels /
//! other versions.  Oracle I-integrity by *message identity*: the simulator
//! knows which (proof, pi, verifier, version) tuples were honestly produced;
//! any other accepted tuple is a violation; any panic is a violation.

use std::sync::Arc;

use dusk_plonk::prelude::*;

use crate::channel::{apply, random_pi_fault, ChanFault, Msg};
use crate::deploy::{self, proof_bytes, Route};
use crate::framework::{RunCtx, Violation};
use crate::json::J;
use crate::mirror::{deliver, VerifierNode};
use crate::prng::{digest, Rng};
use crate::program::{Op, Program, Sc};
use crate::scenario::{gen_scenario, pick_class, scenario_sig, ScenCfg};
use crate::seams::ScriptedRng;

/// A minimally different circuit: one selector value, one operand wire, one
/// public-input row, or one constraint more or fewer.
pub fn near_miss(prog: &Program, rng: &mut Rng) -> (Program, &'static str) {
    let mut p = prog.clone();
    let n = p.ops.len();
    // the same number of public inputs, one of them on another row
    if rng.chance(1, 5) {
        let flag = |op: &Op| match op {
            Op::EvalOut { pi, q, .. } if q[3] != Sc::zero() => Some(*pi),
            Op::GateAdd { pi, .. } | Op::GateMul { pi, .. } => Some(*pi),
            _ => None,
        };
        let with: Vec<usize> = (0..n).filter(|i| flag(&p.ops[*i]) == Some(true)).collect();
        let without: Vec<usize> = (0..n).filter(|i| flag(&p.ops[*i]) == Some(false)).collect();
        if !with.is_empty() && !without.is_empty() {
            let (a, b) = (with[rng.usize(with.len())], without[rng.usize(without.len())]);
            for i in [a, b] {
                match &mut p.ops[i] {
                    Op::EvalOut { pi, .. } | Op::GateAdd { pi, .. } | Op::GateMul { pi, .. } => *pi = !*pi,
                    _ => {}
                }
            }
            return (p, "public_input_moved_to_another_row");
        }
    }
    for _ in 0..16 {
        let kind = rng.below(5);
        if n == 0 {
            break;
        }
        let i = rng.usize(n);
        match (kind, &mut p.ops[i]) {
            (0, Op::EvalOut { q, .. }) | (0, Op::RawArith { q, .. }) | (0, Op::RawZero { q, .. }) => {
                let j = rng.usize(6);
                q[j] += Sc::one();
                return (p, "selector");
            }
            (0, Op::GateAdd { l, .. }) => {
                *l += Sc::one();
                return (p, "selector");
            }
            (0, Op::GateMul { m, .. }) => {
                *m += Sc::one();
                return (p, "selector");
            }
            (0, Op::Const(c)) | (0, Op::AssertEqConst(c)) => {
                *c += Sc::one();
                return (p, "constant");
            }
            (1, Op::EvalOut { a, .. }) | (1, Op::GateAdd { a, .. }) | (1, Op::GateMul { a, .. }) | (1, Op::RawArith { a, .. }) => {
                *a += 1;
                return (p, "wire");
            }
            (1, Op::AssertEqualCopy(a)) | (1, Op::SelectOne(a)) | (1, Op::SelectZero(a)) | (1, Op::Truncate(_, a)) => {
                *a += 1;
                return (p, "wire");
            }
            (2, Op::EvalOut { pi, .. }) | (2, Op::GateAdd { pi, .. }) | (2, Op::GateMul { pi, .. }) => {
                *pi = !*pi;
                return (p, "public_input_row");
            }
            (3, Op::Filler(k)) if *k > 1 => {
                *k -= 1;
                return (p, "one_constraint_fewer");
            }
            (4, _) => {
                p.ops.push(Op::Filler(1));
                return (p, "one_constraint_more");
            }
            _ => {}
        }
    }
    p.ops.push(Op::Filler(1));
    (p, "one_constraint_more")
}

pub fn label_variant(label: &[u8], rng: &mut Rng) -> (Vec<u8>, &'static str) {
    let mut l = label.to_vec();
    match rng.below(8) {
        4 => {
            l.push(0);
            (l, "label_nul_appended")
        }
        5 if l.len() > 1 => {
            // same prefix, different last byte
            let k = l.len() - 1;
            l[k] = l[k].wrapping_add(1);
            (l, "label_last_byte_changed")
        }
        6 => {
            // same first 32+ bytes, longer
            while l.len() < 33 {
                l.push(b'a');
            }
            l.push(rng.below(256) as u8);
            (l, "label_long_extension")
        }
        7 if !l.is_empty() => {
            // trailing NULs stripped / NUL replaced
            while l.last() == Some(&0) {
                l.pop();
            }
            if l == label {
                l.push(0);
                l.push(0);
            }
            (l, "label_trailing_nul_changed")
        }
        0 if !l.is_empty() => {
            let i = rng.usize(l.len());
            l[i] ^= 1 << rng.below(8);
            (l, "label_byte_flipped")
        }
        1 => {
            l.push(rng.below(256) as u8);
            (l, "label_byte_appended")
        }
        2 if !l.is_empty() => {
            l.pop();
            (l, "label_truncated")
        }
        3 if !l.is_empty() => (Vec::new(), "label_empty"),
        _ => {
            l.insert(0, 0);
            (l, "label_byte_prepended")
        }
    }
}

pub fn run(ctx: &mut RunCtx) -> Result<(), Violation> {
    let mut w = ctx.stream("workload");
    let mut s = ctx.stream("sched");
    let mut f = ctx.stream("faults");
    let class = pick_class(&mut w, [14, 2, 0, 0]);
    let exact = w.chance(1, 2);
    // a share of the runs binds a vector of hundreds to thousands of public inputs
    if ctx.run % 100 == 41 {
        let k = crate::scenario::pi_heavy_count(&mut w);
        crate::scenario::set_pi_heavy(Some(k));
    }
    let sc = gen_scenario(ctx, &mut w, &ScenCfg { class, heavy: false, raw: true, exact_target: exact, max_ops: 16 });
    let sig = scenario_sig(&sc);
    let pp = deploy::pp_with_degree(sc.degree);
    let env = ctx.env(&mut s);
    let (prover, verifier) = match deploy::compile(&pp, &sc.label, &sc.prog, Route::WithCircuit, &env) {
        Ok(k) => k,
        Err(_) => return Ok(()),
    };
    let node = VerifierNode::new(verifier)?;
    // honest messages, one per provable version
    let mut honest: Vec<Msg> = Vec::new();
    for (k, v) in [PlonkVersion::V3, PlonkVersion::V2].iter().enumerate() {
        let mut rng = ScriptedRng::new(sc.rng_seed ^ (k as u64) << 8);
        let env_p = ctx.env(&mut s);
        ctx.st.steps += 1;
        match deploy::prove(&prover, &sc.prog, &sc.tape, &mut rng, *v, &env_p) {
            Ok((proof, pi)) => honest.push(Msg { proof: proof_bytes(&proof), pi, version: *v }),
            Err(_) => {
                ctx.st.probe("honest_prove_failed(C01 territory)");
                return Ok(());
            }
        }
    }
    // V1 has no prover
    {
        let mut rng = ScriptedRng::new(1);
        let c = crate::program::ProgCircuit { prog: sc.prog.clone(), tape: sc.tape.clone() };
        match prover.prove_with_version(&mut rng, &c, PlonkVersion::V1) {
            Err(_) => {}
            Ok(_) => return Err(Violation::new("I-integrity", "a V1 proof was produced although V1 has no prover")),
        }
    }
    let mut fault_list: Vec<(String, Msg, usize /*honest idx*/)> = Vec::new();

    // --- version pairs: every ordered (proof version, verifier version)
    for (hi, m) in honest.iter().enumerate() {
        for vv in [PlonkVersion::V1, PlonkVersion::V2, PlonkVersion::V3] {
            let env_v = ctx.env(&mut s);
            let d = deliver(ctx, &node, m, vv, &env_v)?;
            let same = vv == m.version;
            ctx.st.eval(sig ^ 0x11 ^ ((hi as u64) << 4) ^ (vv as u64), !same);
            if !same {
                ctx.st.fault("chan.version_skew");
                if d.accepted() {
                    return Err(Violation::new(
                        "I-integrity",
                        format!("a {} proof was accepted under {}", deploy::version_name(m.version), deploy::version_name(vv)),
                    ));
                }
            } else if !d.accepted() {
                ctx.st.probe("honest_rejected(C01 territory)");
                return Ok(());
            }
        }
    }
    // duplicate delivery
    {
        let env_v = ctx.env(&mut s);
        let d = deliver(ctx, &node, &honest[0], honest[0].version, &env_v)?;
        ctx.st.fault("chan.duplicate_delivery");
        if !d.accepted() {
            return Err(Violation::new("I-integrity", "the same honest message was accepted once and rejected on re-delivery"));
        }
    }

    // --- public-input faults
    let n_pi_faults = if honest[0].pi.is_empty() { 3 } else { 10 + 2 * honest[0].pi.len().min(8) };
    for _ in 0..n_pi_faults {
        let hi = f.usize(honest.len());
        let fault = random_pi_fault(&mut f);
        let m = apply(&honest[hi], &fault, None, &mut f);
        if m == honest[hi] {
            continue;
        }
        fault_list.push((fault.kind().to_string(), m, hi));
    }
    // systematic: every position x {+1, 0, swap with next, drop, dup}
    for i in 0..honest[0].pi.len().min(6) {
        for fault in [ChanFault::PiAddOne(i), ChanFault::PiZero(i), ChanFault::PiSwap(i, i + 1), ChanFault::PiDrop(i), ChanFault::PiDup(i)] {
            let m = apply(&honest[0], &fault, None, &mut f);
            if m != honest[0] {
                fault_list.push((fault.kind().to_string(), m, 0));
            }
        }
    }
    // long vectors: the far end and the positions around block-size multiples
    {
        let len = honest[0].pi.len();
        if len > 64 {
            let mut pos = vec![len - 1, len - 2, len / 2, 255, 256, 1023, 1024];
            pos.retain(|p| *p < len);
            for i in pos {
                for fault in [ChanFault::PiAddOne(i), ChanFault::PiZero(i), ChanFault::PiSwap(i, i.saturating_sub(1)), ChanFault::PiDrop(i)] {
                    let m = apply(&honest[0], &fault, None, &mut f);
                    if m != honest[0] {
                        fault_list.push((fault.kind().to_string(), m, 0));
                    }
                }
            }
        }
    }
    ctx.hints.n_faults = fault_list.len();
    let keep = if ctx.spec.get("keepf").is_some() { Some(ctx.spec.list("keepf")) } else { None };
    for (idx, (kind, m, hi)) in fault_list.iter().enumerate() {
        if let Some(k) = &keep {
            if !k.contains(&idx) {
                continue;
            }
        }
        ctx.st.fault(kind);
        let env_v = ctx.env(&mut s);
        let d = deliver(ctx, &node, m, honest[*hi].version, &env_v)?;
        ctx.st.eval(sig ^ digest(kind.as_bytes()) ^ (idx as u64) << 20, true);
        if d.accepted() {
            ctx.note("fault", J::s(format!("{} on honest message {} (pi {:?} -> {:?})", kind, hi, honest[*hi].pi.len(), m.pi.len())));
            return Err(Violation::new("I-integrity", format!("altered public inputs accepted ({}): {} values instead of {}", kind, m.pi.len(), honest[*hi].pi.len())));
        }
    }

    // --- misrouting: near-miss circuits and other labels
    if !ctx.spec.flag("nomisroute") {
        ctx.hints.extra.push(("nomisroute".into(), "1".into()));
        let n_miss = 3;
        for _ in 0..n_miss {
            let (prog2, what) = near_miss(&sc.prog, &mut f);
            let prog2 = Arc::new(prog2);
            let c2 = crate::program::count_constraints(&prog2).unwrap_or(0);
            let pp2 = deploy::pp_with_degree(sc.degree.max(deploy::min_degree_for(c2)));
            let env2 = ctx.env(&mut s);
            ctx.st.steps += 1;
            let v2 = match deploy::compile(&pp2, &sc.label, &prog2, Route::WithCircuit, &env2) {
                Ok((_, v)) => v,
                Err(_) => continue,
            };
            let node2 = VerifierNode::new(v2)?;
            if node2.bytes == node.bytes {
                // identical keys are fine if the mutation left the description alone (e.g. it renamed a
                // witness); if the layouts differ, the compilation lost what distinguishes them and every
                // proof for one circuit is a proof for the other
                let la = crate::program::snapshot_of(&sc.prog, &crate::program::Tape::default());
                let lb = crate::program::snapshot_of(&prog2, &crate::program::Tape::default());
                if let (Ok(la), Ok(lb)) = (la, lb) {
                    if !crate::rm_rows::same_description(&la, &lb) {
                        ctx.note("near_miss", J::s(format!("{}: {}", what, crate::program::describe(&prog2))));
                        return Err(Violation::new(
                            "I-integrity",
                            format!("two different circuit descriptions ({}) compile to byte-identical verifiers: a proof for one is accepted for the other", what),
                        ));
                    }
                }
                ctx.st.probe("near_miss_identical_description_skipped");
                continue;
            }
            ctx.st.fault(&format!("chan.misroute.{}", what));
            for m in &honest {
                let env_v = ctx.env(&mut s);
                let d = deliver(ctx, &node2, m, m.version, &env_v)?;
                ctx.st.eval(sig ^ digest(what.as_bytes()) ^ 0x55, true);
                if d.accepted() {
                    // Where a public input sits only matters through its value: if every public input that
                    // sits on another row in the other description is zero, both descriptions put the same
                    // equations on the same wires for this vector - the proof *is* a proof of the other
                    // statement, and a complete verifier has to accept it.  (A false alarm of the first
                    // version of this mutation on the unchanged tree, DESIGN.md 9.4.)
                    if what == "public_input_moved_to_another_row" {
                        let nz = |rows: &[u64], pi: &[BlsScalar]| -> Vec<(u64, BlsScalar)> {
                            rows.iter().zip(pi.iter()).filter(|(_, v)| **v != BlsScalar::zero()).map(|(r, v)| (*r, *v)).collect()
                        };
                        if nz(&node.rm.pi_rows, &m.pi) == nz(&node2.rm.pi_rows, &m.pi) {
                            ctx.st.probe("moved_public_input_is_zero(same statement, accepted)");
                            continue;
                        }
                    }
                    ctx.note("near_miss", J::s(format!("{}: {}", what, crate::program::describe(&prog2))));
                    return Err(Violation::new("I-integrity", format!("proof accepted by the verifier of a different circuit ({})", what)));
                }
                // the misrouted proof with the vector adapted to the other circuit's length:
                // zero entries dropped or inserted at every position
                let want = node2.rm.pi_rows.len();
                let mut adapted: Vec<Vec<BlsScalar>> = Vec::new();
                if want + 1 == m.pi.len() {
                    for i in 0..m.pi.len() {
                        let mut v = m.pi.clone();
                        v.remove(i);
                        adapted.push(v);
                    }
                } else if want == m.pi.len() + 1 {
                    for i in 0..=m.pi.len() {
                        let mut v = m.pi.clone();
                        v.insert(i, BlsScalar::zero());
                        adapted.push(v);
                    }
                }
                for v in adapted.into_iter().take(6) {
                    let m2 = Msg { proof: m.proof.clone(), pi: v, version: m.version };
                    let env_v = ctx.env(&mut s);
                    ctx.st.fault("chan.misroute+pi_adapted");
                    let d = deliver(ctx, &node2, &m2, m2.version, &env_v)?;
                    ctx.st.eval(sig ^ digest(what.as_bytes()) ^ 0x56 ^ (m2.pi.len() as u64) << 12, true);
                    if d.accepted() {
                        return Err(Violation::new("I-integrity", format!("proof accepted by the verifier of a different circuit ({}) with an adapted public-input vector", what)));
                    }
                }
            }
        }
        for _ in 0..2 {
            let (label2, what) = label_variant(&sc.label, &mut f);
            if label2 == sc.label {
                continue;
            }
            let env2 = ctx.env(&mut s);
            ctx.st.steps += 1;
            let v2 = match deploy::compile(&pp, &label2, &sc.prog, Route::WithCircuit, &env2) {
                Ok((_, v)) => v,
                Err(_) => continue,
            };
            let node2 = VerifierNode::new(v2)?;
            ctx.st.fault(&format!("chan.misroute.{}", what));
            for m in &honest {
                let env_v = ctx.env(&mut s);
                let d = deliver(ctx, &node2, m, m.version, &env_v)?;
                ctx.st.eval(sig ^ digest(what.as_bytes()) ^ 0x66, true);
                if d.accepted() {
                    ctx.note("label_variant", J::s(format!("{}: {}", what, crate::prng::hex(&label2))));
                    return Err(Violation::new("I-integrity", format!("proof accepted under another label ({})", what)));
                }
            }
        }
    }
    // --- delivery history on one verifier: after a message has been accepted, the combinations
    // that differ from it only in the version (or in one public input) are still rejected, and the
    // honest one is still accepted.  (A verdict may depend on the message, never on what the
    // verifier has seen before.)
    for (hi, m) in honest.iter().enumerate() {
        let env_v = ctx.env(&mut s);
        let d = deliver(ctx, &node, m, m.version, &env_v)?;
        if !d.accepted() {
            return Err(Violation::new("I-integrity", "an honest message accepted earlier in the run is rejected on a later delivery"));
        }
        for vv in [PlonkVersion::V3, PlonkVersion::V2, PlonkVersion::V1] {
            if vv == m.version {
                continue;
            }
            let env_v = ctx.env(&mut s);
            let d = deliver(ctx, &node, m, vv, &env_v)?;
            ctx.st.fault("chan.version_skew_after_acceptance");
            ctx.st.eval(sig ^ 0x12 ^ ((hi as u64) << 4) ^ (vv as u64), true);
            if d.accepted() {
                return Err(Violation::new(
                    "I-integrity",
                    format!("after it had been accepted under {}, the same message was accepted under {}", deploy::version_name(m.version), deploy::version_name(vv)),
                ));
            }
        }
        if !m.pi.is_empty() {
            let m2 = apply(m, &ChanFault::PiAddOne(f.usize(m.pi.len())), None, &mut f);
            let env_v = ctx.env(&mut s);
            let d = deliver(ctx, &node, &m2, m.version, &env_v)?;
            ctx.st.fault("chan.pi_plus_one_after_acceptance");
            if d.accepted() {
                return Err(Violation::new("I-integrity", "after the honest message had been accepted, the same proof was accepted with another public input"));
            }
        }
    }
    ctx.st.sample(J::obj(vec![
        ("run", J::U(ctx.run)),
        ("program", J::s(crate::program::describe(&sc.prog))),
        ("public_inputs", J::U(honest[0].pi.len() as u64)),
        ("pi_faults_delivered", J::U(fault_list.len() as u64)),
        ("first_faults", J::A(fault_list.iter().take(5).map(|(k, ..)| J::s(k.clone())).collect())),
    ]));
    Ok(())
}

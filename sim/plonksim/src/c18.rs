//! C18 — compilation and proving are deterministic and schedule-independent.
//!
//! Sequential specification: the canonical execution (T = 1, in-order
//! schedule, hash stream 0, empty history, freshly compiled keys).  The same
//! scenario is then executed under perturbed environments and every byte
//! output must equal the specification's (I-determ).

use std::sync::Arc;

use dusk_plonk::prelude::*;

use crate::deploy::{self, proof_bytes, Route, ROUTES};
use crate::framework::{RunCtx, Violation};
use crate::json::J;
use crate::prng::digest;
use crate::program::{Op, Program};
use crate::scenario::{gen_scenario, pick_class, scenario_sig, ScenCfg, Scenario, SizeClass};
use crate::seams::{EnvCfg, ScriptedRng};

pub struct Reference {
    pub prover: Vec<u8>,
    pub verifier: Vec<u8>,
    pub compressed: Vec<u8>,
    pub proof: Vec<u8>,
    pub pi: Vec<u8>,
}

pub fn pi_bytes(pi: &[BlsScalar]) -> Vec<u8> {
    use dusk_bytes::Serializable;
    pi.iter().flat_map(|s| s.to_bytes().to_vec()).collect()
}

/// The sequential specification of a scenario.
pub fn reference(sc: &Scenario) -> Result<Reference, String> {
    let canon = EnvCfg::canonical();
    let pp = deploy::pp_with_degree(sc.degree);
    let (prover, verifier) =
        deploy::compile(&pp, &sc.label, &sc.prog, Route::WithCircuit, &canon).map_err(|e| format!("compile: {:?}", e))?;
    let compressed = deploy::compress(&sc.prog, &canon).map_err(|e| format!("compress: {:?}", e))?;
    let mut rng = ScriptedRng::new(sc.rng_seed);
    let (proof, pi) =
        deploy::prove(&prover, &sc.prog, &sc.tape, &mut rng, sc.version, &canon).map_err(|e| format!("prove: {:?}", e))?;
    deploy::verify(&verifier, &proof, &pi, sc.version, &canon).map_err(|e| format!("verify: {:?}", e))?;
    Ok(Reference { prover: prover.to_bytes(), verifier: verifier.to_bytes(), compressed, proof: proof_bytes(&proof), pi: pi_bytes(&pi) })
}

pub fn digests(r: &Reference) -> [u64; 5] {
    [digest(&r.prover), digest(&r.verifier), digest(&r.compressed), digest(&r.proof), digest(&r.pi)]
}

pub fn class_for(ctx: &RunCtx, w: &mut crate::prng::Rng) -> SizeClass {
    if let Some(c) = ctx.spec.get("class") {
        return match c {
            "small" => SizeClass::Small,
            "mid" => SizeClass::Mid,
            "large" => SizeClass::Large,
            _ => SizeClass::Tiny,
        };
    }
    // most runs tiny (cheap, many schedules); a steady share takes the parallel FFT paths
    if ctx.thorough {
        pick_class(w, [10, 4, 4, 1])
    } else {
        pick_class(w, [12, 3, 3, 0])
    }
}

thread_local! {
    static WARMED: std::cell::Cell<bool> = const { std::cell::Cell::new(false) };
}

/// Process pre-history: the first thing a worker process does is serve a small deployment that
/// uses the compressor's built-in constants, through the compressed route, under a non-canonical
/// environment that differs from process to process.  Whatever the library builds lazily and keeps
/// for the life of the process is then built under *that* environment; the specification's
/// digests (compared with the alloc-only build and with other processes) must not care.
fn warm_up(seed: u64) {
    let mut r = crate::prng::Rng::new(seed ^ 0x57A7);
    let t = crate::program::hades_table();
    let mut ops = Vec::new();
    for _ in 0..4 {
        ops.push(Op::GateAdd { l: t[r.usize(t.len())], r: t[335 + r.usize(25)], f: t[r.usize(t.len())], c: t[335 + r.usize(25)], a: 0, b: 1, d: 0, pi: false });
    }
    let prog = Arc::new(Program { ops });
    let env = EnvCfg { threads: 3 + r.usize(9), sched_seed: r.u64() | 1, sched_budget: u64::MAX, hash_seed: r.u64() | 1 };
    let pp = deploy::pp_with_degree(32);
    let _ = deploy::compile(&pp, b"warm-up", &prog, Route::Compressed, &env);
}

pub fn run(ctx: &mut RunCtx) -> Result<(), Violation> {
    if !WARMED.with(|x| x.replace(true)) {
        warm_up(ctx.seed ^ ctx.run.wrapping_mul(0x9E37_79B9_7F4A_7C15));
    }
    let mut w = ctx.stream("workload");
    let mut s = ctx.stream("sched");
    let mut h = ctx.stream("history");
    let class = class_for(ctx, &mut w);
    // a third of the runs draws selectors from the compressor's built-in constant table
    let pooled = w.chance(1, 3);
    if pooled {
        let t = crate::program::hades_table();
        let mut pool = t.clone();
        for _ in 0..13 {
            pool.extend_from_slice(&t[335..]);
        }
        crate::program::set_const_pool(pool);
        ctx.st.probe("programs_with_builtin_table_constants");
    }
    let sc = gen_scenario(ctx, &mut w, &ScenCfg { class, heavy: false, raw: true, exact_target: true, max_ops: 24 });
    crate::program::set_const_pool(Vec::new());
    let sig = scenario_sig(&sc);
    // in half of the runs the process has already served a deployment under a sibling label
    // (same length, one byte changed) before the specification is computed: outputs may depend
    // on the label, never on what was served earlier
    if h.chance(1, 2) && !sc.label.is_empty() {
        let mut label = sc.label.clone();
        let i = if h.chance(1, 2) { label.len() - 1 } else { h.usize(label.len()) };
        label[i] ^= 1 << h.below(8);
        let prog = Arc::new(Program { ops: vec![Op::Filler(1 + h.usize(3))] });
        let pp = deploy::pp_with_degree(16);
        let _ = deploy::compile(&pp, &label, &prog, Route::WithCircuit, &EnvCfg::canonical());
        ctx.st.probe("sibling_label_served_before_the_specification");
        ctx.st.fault("history.sibling_label_first");
        ctx.st.steps += 1;
    }
    // ... or a deployment that collides with ours on label, size or constraint count (another
    // circuit), the same circuit under a sibling label, FFTs on the same domain sizes
    let cheap_only = !matches!(class, SizeClass::Tiny | SizeClass::Small);
    if h.chance(1, 2) {
        for _ in 0..1 + h.usize(2) {
            crate::history::noise(ctx, &sc, &mut h, cheap_only);
        }
        ctx.st.probe("history_before_the_specification");
    }
    let rf = match reference(&sc) {
        Ok(r) => r,
        Err(e) => return Err(Violation::new("I-valid", format!("sequential specification failed: {}", e))),
    };
    ctx.st.steps += 4;
    let d = digests(&rf);
    for x in &d {
        ctx.st.log(*x);
    }
    ctx.st.notes.insert(format!("digest:{}", ctx.run), d.iter().map(|x| format!("{:016x}", x)).collect::<Vec<_>>().join(","));
    ctx.st.sample(J::obj(vec![
        ("run", J::U(ctx.run)),
        ("program", J::s(crate::program::describe(&sc.prog))),
        ("constraints", J::U(sc.constraints as u64)),
        ("srs_degree", J::U(sc.degree as u64)),
        ("label_hex", J::s(crate::prng::hex(&sc.label))),
        ("reference_digests", J::A(d.iter().map(|x| J::s(format!("{:016x}", x))).collect())),
    ]));
    if ctx.spec.flag("refonly") {
        // digest-only mode (build comparison): the sequential specification is all that is needed
        return Ok(());
    }
    if sc.constraints.next_power_of_two() * 8 >= 4096 {
        ctx.st.probe("quotient_domain_ge_2^12");
    }
    if sc.constraints.next_power_of_two() >= 4096 {
        ctx.st.probe("proving_domain_ge_2^12");
    }

    // the specification's own proof against the protocol: the reference verifier builds its
    // transcript from the label bytes alone, so a label-dependent state left behind by earlier
    // operations shows here
    {
        let v = Verifier::try_from_bytes(&rf.verifier).map_err(|e| Violation::new("I-determ", format!("the specification's verifier does not load: {:?}", e)))?;
        let node = crate::mirror::VerifierNode::new(v)?;
        let pi: Vec<BlsScalar> = {
            use dusk_bytes::Serializable;
            rf.pi.chunks(32).map(|c| BlsScalar::from_bytes(c.try_into().unwrap()).unwrap()).collect()
        };
        let msg = crate::channel::Msg { proof: rf.proof.clone(), pi, version: sc.version };
        let dec = crate::mirror::deliver(ctx, &node, &msg, sc.version, &EnvCfg::canonical())?;
        if !dec.accepted() {
            return Err(Violation::new("I-determ/history", format!("the specification's proof is rejected by the real and the reference verifier: {:?}", dec)));
        }
    }

    let n_cfg = match class {
        SizeClass::Tiny => 5,
        SizeClass::Small => 3,
        SizeClass::Mid => 2,
        SizeClass::Large => 1,
    };
    let pp = deploy::pp_with_degree(sc.degree);
    for j in 0..n_cfg {
        if h.chance(1, 2) {
            crate::history::noise(ctx, &sc, &mut h, cheap_only);
        }
        // --- compile under a perturbed environment, by a seeded route
        let env_c = ctx.env(&mut s);
        let route = *s.pick(&ROUTES);
        let fail = |what: &str, env: &EnvCfg, extra: String| {
            Violation::new("I-determ", format!("{} differs from the sequential specification under [{}] {}", what, env.describe(), extra))
        };
        let (prover, verifier) = match deploy::compile(&pp, &sc.label, &sc.prog, route, &env_c) {
            Ok(k) => k,
            Err(e) => return Err(fail("compile result", &env_c, format!("route={:?} err={:?}", route, e))),
        };
        ctx.st.steps += 1;
        let nontrivial = !env_c.is_canonical();
        ctx.st.eval(sig ^ digest(env_c.describe().as_bytes()) ^ (route as u64 + 1), nontrivial);
        if prover.to_bytes() != rf.prover {
            return Err(fail("Prover::to_bytes", &env_c, format!("route={:?}", route)));
        }
        if verifier.to_bytes() != rf.verifier {
            return Err(fail("Verifier::to_bytes", &env_c, format!("route={:?}", route)));
        }
        // --- compress
        let env_z = ctx.env(&mut s);
        match deploy::compress(&sc.prog, &env_z) {
            Ok(z) => {
                ctx.st.eval(sig ^ digest(env_z.describe().as_bytes()) ^ 0x77, !env_z.is_canonical());
                if z != rf.compressed {
                    return Err(fail("Circuit::compress", &env_z, String::new()));
                }
            }
            Err(e) => return Err(fail("compress result", &env_z, format!("{:?}", e))),
        }
        ctx.st.steps += 1;
        if h.chance(1, 3) {
            crate::history::noise(ctx, &sc, &mut h, cheap_only);
        }
        // --- prove with the same RNG script, repeated runs, keys possibly reloaded
        let env_p = ctx.env(&mut s);
        let prover2 = if s.chance(1, 3) {
            ctx.st.probe("prover_reloaded_from_bytes");
            match Prover::try_from_bytes(prover.to_bytes()) {
                Ok(p) => p,
                Err(e) => return Err(Violation::new("I-durable", format!("reload of own prover bytes failed: {:?}", e))),
            }
        } else {
            prover
        };
        let mut rng = ScriptedRng::new(sc.rng_seed);
        let (proof, pi) = match deploy::prove(&prover2, &sc.prog, &sc.tape, &mut rng, sc.version, &env_p) {
            Ok(x) => x,
            Err(e) => return Err(fail("prove result", &env_p, format!("{:?}", e))),
        };
        ctx.st.steps += 1;
        ctx.st.eval(sig ^ digest(env_p.describe().as_bytes()) ^ 0x99 ^ j as u64, !env_p.is_canonical());
        if proof_bytes(&proof) != rf.proof {
            return Err(fail("Proof::to_bytes", &env_p, String::new()));
        }
        if pi_bytes(&pi) != rf.pi {
            return Err(fail("public inputs", &env_p, String::new()));
        }
        if h.chance(1, 3) {
            crate::history::noise(ctx, &sc, &mut h, cheap_only);
        }
        let env_v = ctx.env(&mut s);
        if let Err(e) = deploy::verify(&verifier, &proof, &pi, sc.version, &env_v) {
            return Err(fail("verify verdict", &env_v, format!("{:?}", e)));
        }
        ctx.st.steps += 1;
    }
    Ok(())
}

//! Independent strict parsers of the on-disk encodings (C17's oracle for
//! "whatever a checked decoder accepts consists only of canonically encoded
//! field elements and on-curve, prime-order-subgroup group elements"), and the
//! maps of length fields / raw points that structure-aware disk faults aim at.

use dusk_bls12_381::{BlsScalar, G1Affine, G2Affine, GENERATOR};
use dusk_bytes::Serializable;

type Fr = BlsScalar;

#[derive(Clone, Debug)]
pub struct LenField {
    pub off: usize,
    pub be: bool,
    pub name: &'static str,
    pub value: u64,
}

#[derive(Clone, Debug, Default)]
pub struct Layout {
    pub len_fields: Vec<LenField>,
    /// offsets of 97-byte raw G1 points
    pub raw_points: Vec<usize>,
    /// offsets of 48-byte compressed G1 points
    pub g1_points: Vec<usize>,
    /// offsets of 96-byte compressed G2 points (opening keys)
    pub g2_points: Vec<usize>,
    /// offsets of 32-byte scalars (a sample: first of each region)
    pub scalar_regions: Vec<(usize, usize)>,
    /// (offset, len) of sections: label, prover key, commit key, verifier key ...
    pub sections: Vec<(&'static str, usize, usize)>,
}

fn u64be(b: &[u8], off: usize) -> Option<u64> {
    let s = b.get(off..off + 8)?;
    let mut x = [0u8; 8];
    x.copy_from_slice(s);
    Some(u64::from_be_bytes(x))
}
fn u64le(b: &[u8], off: usize) -> Option<u64> {
    let s = b.get(off..off + 8)?;
    let mut x = [0u8; 8];
    x.copy_from_slice(s);
    Some(u64::from_le_bytes(x))
}

fn scalar_at(b: &[u8], off: usize) -> Result<Fr, String> {
    let s = b.get(off..off + 32).ok_or("short scalar")?;
    let mut x = [0u8; 32];
    x.copy_from_slice(s);
    Option::<Fr>::from(Fr::from_bytes(&x)).ok_or_else(|| format!("non-canonical scalar at offset {}", off))
}

fn g1_at(b: &[u8], off: usize) -> Result<G1Affine, String> {
    let s = b.get(off..off + 48).ok_or("short G1")?;
    let mut x = [0u8; 48];
    x.copy_from_slice(s);
    // checked decoding: canonical flags and field element, on curve, in the prime-order subgroup
    let p = G1Affine::from_bytes(&x).map_err(|_| format!("invalid compressed G1 at offset {}", off))?;
    if p.to_bytes() != x {
        return Err(format!("non-canonical compressed G1 at offset {}", off));
    }
    Ok(p)
}

fn g2_at(b: &[u8], off: usize) -> Result<G2Affine, String> {
    let s = b.get(off..off + 96).ok_or("short G2")?;
    let mut x = [0u8; 96];
    x.copy_from_slice(s);
    let p = G2Affine::from_bytes(&x).map_err(|_| format!("invalid compressed G2 at offset {}", off))?;
    if p.to_bytes() != x {
        return Err(format!("non-canonical compressed G2 at offset {}", off));
    }
    Ok(p)
}

/// BLS12-381 base field modulus, little-endian limbs.
pub const FP_MODULUS: [u64; 6] = [
    0xb9fe_ffff_ffff_aaab,
    0x1eab_fffe_b153_ffff,
    0x6730_d2a0_f6b0_f624,
    0x6477_4b84_f385_12bf,
    0x4b1b_a7b6_434b_acd7,
    0x1a01_11ea_397f_e69a,
];

fn limbs_below_modulus(l: &[u64; 6]) -> bool {
    for i in (0..6).rev() {
        if l[i] < FP_MODULUS[i] {
            return true;
        }
        if l[i] > FP_MODULUS[i] {
            return false;
        }
    }
    false
}

/// A raw (97-byte) commit-key point: flag in {0,1}, both coordinates reduced,
/// the identity only in its one canonical encoding, on the curve and in the
/// prime-order subgroup.
pub fn raw_g1_strict(chunk: &[u8]) -> Result<(), String> {
    if chunk.len() != 97 {
        return Err("raw point length".into());
    }
    let flag = chunk[96];
    if flag > 1 {
        return Err(format!("raw point flag byte {} is neither 0 nor 1", flag));
    }
    let mut limbs = [[0u64; 6]; 2];
    for (k, l) in limbs.iter_mut().enumerate() {
        for (i, limb) in l.iter_mut().enumerate() {
            *limb = u64le(chunk, k * 48 + i * 8).unwrap();
        }
        if !limbs_below_modulus(l) {
            return Err(format!("raw point coordinate {} is not a reduced field element", if k == 0 { "x" } else { "y" }));
        }
    }
    if flag == 1 {
        if chunk != G1Affine::identity().to_raw_bytes() {
            return Err("raw point has the infinity flag set with non-identity coordinates".into());
        }
        return Ok(());
    }
    // SAFETY (API contract): flag and limbs were validated above; membership is checked next.
    let p = unsafe { G1Affine::from_slice_unchecked(chunk) };
    if !bool::from(p.is_on_curve()) {
        return Err("raw point is not on the curve".into());
    }
    if !bool::from(p.is_torsion_free()) {
        return Err("raw point is not in the prime-order subgroup".into());
    }
    Ok(())
}

const DOMAIN_SIZE: usize = 8 + 4 + 5 * 32;

fn domain_strict(b: &[u8], off: usize, expect_size: u64) -> Result<(), String> {
    let size = u64le(b, off).ok_or("short domain")?;
    let log = {
        let s = b.get(off + 8..off + 12).ok_or("short domain")?;
        u32::from_le_bytes([s[0], s[1], s[2], s[3]])
    };
    if size != expect_size || !size.is_power_of_two() || size.trailing_zeros() != log {
        return Err(format!("evaluation domain header inconsistent (size {}, log {}, expected {})", size, log, expect_size));
    }
    let sz = scalar_at(b, off + 12)?;
    let sz_inv = scalar_at(b, off + 44)?;
    let g = scalar_at(b, off + 76)?;
    let g_inv = scalar_at(b, off + 108)?;
    let gen_inv = scalar_at(b, off + 140)?;
    if sz != Fr::from(size) || sz * sz_inv != Fr::one() || g * g_inv != Fr::one() || gen_inv * GENERATOR != Fr::one() {
        return Err("evaluation domain constants inconsistent".into());
    }
    let gp = crate::rm_verify::pow_u64(g, size);
    if gp != Fr::one() || (size > 1 && crate::rm_verify::pow_u64(g, size / 2) == Fr::one()) {
        return Err("evaluation domain generator is not a primitive root of the stated order".into());
    }
    Ok(())
}

/// Strict parse of `Prover::to_bytes()`.
pub fn prover_strict(b: &[u8]) -> Result<Layout, String> {
    let mut lay = Layout::default();
    if b.len() < 48 {
        return Err("short header".into());
    }
    let names = ["label_len", "prover_key_len", "commit_key_len", "verifier_key_len", "size", "constraints"];
    let mut hdr = [0u64; 6];
    for i in 0..6 {
        hdr[i] = u64be(b, 8 * i).unwrap();
        lay.len_fields.push(LenField { off: 8 * i, be: true, name: names[i], value: hdr[i] });
    }
    let (label_len, pk_len, ck_len, vk_len) = (hdr[0] as usize, hdr[1] as usize, hdr[2] as usize, hdr[3] as usize);
    let (size, constraints) = (hdr[4], hdr[5]);
    let total = 48usize
        .checked_add(label_len)
        .and_then(|x| x.checked_add(pk_len))
        .and_then(|x| x.checked_add(ck_len))
        .and_then(|x| x.checked_add(vk_len))
        .ok_or("length overflow")?;
    if b.len() != total {
        return Err(format!("encoding length {} != header total {}", b.len(), total));
    }
    if constraints.checked_next_power_of_two() != Some(size) {
        return Err("size is not the next power of two of constraints".into());
    }
    let pk_off = 48 + label_len;
    let ck_off = pk_off + pk_len;
    let vk_off = ck_off + ck_len;
    lay.sections.push(("label", 48, label_len));
    lay.sections.push(("prover_key", pk_off, pk_len));
    lay.sections.push(("commit_key", ck_off, ck_len));
    lay.sections.push(("verifier_key", vk_off, vk_len));

    // prover key
    let pk = &b[pk_off..ck_off];
    let n = u64le(pk, 0).ok_or("short prover key")?;
    let eval_size = u64le(pk, 8).ok_or("short prover key")? as usize;
    lay.len_fields.push(LenField { off: pk_off, be: false, name: "prover_key.n", value: n });
    lay.len_fields.push(LenField { off: pk_off + 8, be: false, name: "prover_key.evaluations_size", value: eval_size as u64 });
    if n != size {
        return Err("prover key n != size".into());
    }
    let dom = n.checked_mul(8).ok_or("n overflow")?;
    if eval_size as u64 != dom * 32 + DOMAIN_SIZE as u64 {
        return Err("evaluations size inconsistent with n".into());
    }
    let mut off = 16usize;
    let evals_strict = |pk: &[u8], off: usize, lay: &mut Layout| -> Result<(), String> {
        domain_strict(pk, off, dom)?;
        lay.len_fields.push(LenField { off: pk_off + off, be: false, name: "evaluations.domain.size", value: dom });
        let start = off + DOMAIN_SIZE;
        for i in 0..dom as usize {
            scalar_at(pk, start + 32 * i)?;
        }
        lay.scalar_regions.push((pk_off + start, dom as usize));
        Ok(())
    };
    for _poly in 0..15 {
        let plen = u64le(pk, off).ok_or("short prover key (poly len)")?;
        lay.len_fields.push(LenField { off: pk_off + off, be: false, name: "prover_key.poly_len", value: plen });
        off += 8;
        if plen > n {
            return Err("polynomial longer than n".into());
        }
        for i in 0..plen as usize {
            scalar_at(pk, off + 32 * i)?;
        }
        if plen > 0 {
            // the encoder trims leading zero coefficients: the last one is non-zero
            if scalar_at(pk, off + 32 * (plen as usize - 1))? == Fr::zero() {
                return Err("polynomial encoding has a zero leading coefficient".into());
            }
            lay.scalar_regions.push((pk_off + off, plen as usize));
        }
        off += 32 * plen as usize;
        evals_strict(pk, off, &mut lay)?;
        off += eval_size;
    }
    // linear evaluations and vanishing-polynomial evaluations
    for _ in 0..2 {
        evals_strict(pk, off, &mut lay)?;
        off += eval_size;
    }
    if pk[off.min(pk.len())..].iter().any(|x| *x != 0) {
        return Err("non-zero bytes after the prover key".into());
    }

    // commit key (raw)
    let ck = &b[ck_off..vk_off];
    let cnt = u64le(ck, 0).ok_or("short commit key")?;
    lay.len_fields.push(LenField { off: ck_off, be: false, name: "commit_key.len", value: cnt });
    if cnt == 0 {
        return Err("empty commit key".into());
    }
    if ck.len() as u64 != 8 + cnt * 97 {
        return Err("commit key length inconsistent".into());
    }
    for i in 0..cnt as usize {
        let o = 8 + 97 * i;
        raw_g1_strict(&ck[o..o + 97]).map_err(|e| format!("commit key point {}: {}", i, e))?;
        lay.raw_points.push(ck_off + o);
    }

    // verifier key
    let vk = &b[vk_off..];
    if vk.len() < 8 + 15 * 48 {
        return Err("short verifier key".into());
    }
    lay.len_fields.push(LenField { off: vk_off, be: false, name: "verifier_key.n", value: u64le(vk, 0).unwrap() });
    for i in 0..15 {
        g1_at(vk, 8 + 48 * i)?;
        lay.g1_points.push(vk_off + 8 + 48 * i);
    }
    Ok(lay)
}

/// Strict parse of `Verifier::to_bytes()`.
pub fn verifier_strict(b: &[u8]) -> Result<Layout, String> {
    let mut lay = Layout::default();
    if b.len() < 48 {
        return Err("short header".into());
    }
    let names = ["label_len", "verifier_key_len", "opening_key_len", "public_input_indexes_len", "size", "constraints"];
    let mut hdr = [0u64; 6];
    for i in 0..6 {
        hdr[i] = u64be(b, 8 * i).unwrap();
        lay.len_fields.push(LenField { off: 8 * i, be: true, name: names[i], value: hdr[i] });
    }
    let (label_len, vk_len, ok_len, pi_len) = (hdr[0] as usize, hdr[1] as usize, hdr[2] as usize, hdr[3] as usize);
    let total = 48usize
        .checked_add(label_len)
        .and_then(|x| x.checked_add(vk_len))
        .and_then(|x| x.checked_add(ok_len))
        .and_then(|x| pi_len.checked_mul(8).and_then(|p| x.checked_add(p)))
        .ok_or("length overflow")?;
    if b.len() != total {
        return Err(format!("encoding length {} != header total {}", b.len(), total));
    }
    let vk_off = 48 + label_len;
    let ok_off = vk_off + vk_len;
    let pi_off = ok_off + ok_len;
    lay.sections.push(("label", 48, label_len));
    lay.sections.push(("verifier_key", vk_off, vk_len));
    lay.sections.push(("opening_key", ok_off, ok_len));
    lay.sections.push(("public_input_indexes", pi_off, pi_len * 8));
    if vk_len < 8 + 15 * 48 || ok_len != 240 {
        return Err("section lengths".into());
    }
    lay.len_fields.push(LenField { off: vk_off, be: false, name: "verifier_key.n", value: u64le(b, vk_off).unwrap() });
    for i in 0..15 {
        g1_at(b, vk_off + 8 + 48 * i)?;
        lay.g1_points.push(vk_off + 8 + 48 * i);
    }
    let g = g1_at(b, ok_off)?;
    let h = g2_at(b, ok_off + 48)?;
    let xh = g2_at(b, ok_off + 144)?;
    lay.g1_points.push(ok_off);
    lay.g2_points.push(ok_off + 48);
    lay.g2_points.push(ok_off + 144);
    if bool::from(g.is_identity()) || bool::from(h.is_identity()) || bool::from(xh.is_identity()) {
        return Err("opening key contains the identity".into());
    }
    for i in 0..pi_len {
        lay.len_fields.push(LenField { off: pi_off + 8 * i, be: true, name: "public_input_index", value: u64be(b, pi_off + 8 * i).unwrap() });
    }
    Ok(lay)
}

/// Strict parse of `PublicParameters::to_var_bytes()`.
pub fn params_strict(b: &[u8]) -> Result<Layout, String> {
    let mut lay = Layout::default();
    if b.len() <= 240 || (b.len() - 240) % 48 != 0 {
        return Err("length".into());
    }
    let g = g1_at(b, 0)?;
    let h = g2_at(b, 48)?;
    let xh = g2_at(b, 144)?;
    if bool::from(g.is_identity()) || bool::from(h.is_identity()) || bool::from(xh.is_identity()) {
        return Err("opening key contains the identity".into());
    }
    lay.g1_points.push(0);
    lay.g2_points.push(48);
    lay.g2_points.push(144);
    let k = (b.len() - 240) / 48;
    for i in 0..k {
        g1_at(b, 240 + 48 * i)?;
        lay.g1_points.push(240 + 48 * i);
    }
    lay.sections.push(("opening_key", 0, 240));
    lay.sections.push(("commit_key", 240, k * 48));
    Ok(lay)
}

/// Strict parse of a proof: 11 valid compressed G1, 15 canonical scalars.
pub fn proof_strict(b: &[u8]) -> Result<(), String> {
    if b.len() != 1008 {
        return Err("length".into());
    }
    for i in 0..11 {
        g1_at(b, 48 * i)?;
    }
    for i in 0..15 {
        scalar_at(b, 528 + 32 * i)?;
    }
    Ok(())
}

//! Process history (seam S7): other deployments served by the same process —
//! and the same thread — before and between the operations of a run.  The
//! library has one process-wide cache today (transcript labels); anything a
//! later change caches per process or per thread (transcripts, domains,
//! twiddles, decoded keys, selector tables) is keyed by *something*, and the
//! interleaved operations below are chosen to collide on the usual keys:
//! same label / same size / same constraint count with another circuit, the
//! same circuit under a sibling label, the same label at another size, FFTs
//! of the same and neighbouring domain sizes, keys decoded from bytes.
//!
//! The noise operations draw from the run's `history` stream only, run to
//! completion (full life cycle: compile, prove, verify) and never feed the
//! oracle: outputs of the run proper may depend on its own inputs, never on
//! what was served earlier.

use std::sync::Arc;

use dusk_plonk::prelude::*;

use crate::c04::{label_variant, near_miss};
use crate::deploy::{self, Route};
use crate::framework::RunCtx;
use crate::program::{count_constraints, honest_tape, Op, Program};
use crate::prng::Rng;
use crate::scenario::Scenario;
use crate::seams::{under, EnvCfg, ScriptedRng};

/// A circuit with the same label-relevant dimensions as `sc` (constraint count, hence padded size
/// and trim degree) but another description.
pub fn same_size_twin(sc: &Scenario, h: &mut Rng) -> Option<Program> {
    for _ in 0..12 {
        let (p, _) = near_miss(&sc.prog, h);
        if count_constraints(&p) == Some(sc.constraints) && p.ops != sc.prog.ops {
            return Some(p);
        }
    }
    // fall back: the same number of rows, all of them filler, one constant row
    if sc.constraints >= 6 {
        let p = Program { ops: vec![Op::AssertEqConst(h.scalar()), Op::Filler(1)] };
        let c = count_constraints(&p)?;
        if c <= sc.constraints {
            let mut p = p;
            if sc.constraints > c {
                p.ops.push(Op::Filler(sc.constraints - c));
            }
            if count_constraints(&p) == Some(sc.constraints) {
                return Some(p);
            }
        }
    }
    None
}

/// Full life cycle of a deployment that is not ours.
fn serve(ctx: &mut RunCtx, label: &[u8], prog: Program, degree: usize, h: &mut Rng, reload: bool, compressed: bool) {
    let prog = Arc::new(prog);
    let pp = deploy::pp_with_degree(degree);
    let env = ctx.env(h);
    let route = if compressed { Route::Compressed } else { Route::WithCircuit };
    let (prover, verifier) = match deploy::compile(&pp, label, &prog, route, &env) {
        Ok(k) => k,
        Err(_) => return,
    };
    let (prover, verifier) = if reload {
        match (Prover::try_from_bytes(prover.to_bytes()), Verifier::try_from_bytes(verifier.to_bytes())) {
            (Ok(p), Ok(v)) => (p, v),
            _ => return,
        }
    } else {
        (prover, verifier)
    };
    let mut tr = Rng::new(h.u64());
    let tape = honest_tape(&prog, &mut tr);
    let mut rng = ScriptedRng::new(h.u64());
    let env_p = ctx.env(h);
    if let Ok((proof, pi)) = deploy::prove(&prover, &prog, &tape, &mut rng, PlonkVersion::V3, &env_p) {
        let env_v = ctx.env(h);
        let _ = deploy::verify(&verifier, &proof, &pi, PlonkVersion::V3, &env_v);
        // ... and a message that is not accepted
        let mut pi2 = pi.clone();
        if let Some(x) = pi2.first_mut() {
            *x += BlsScalar::one();
            let _ = deploy::verify(&verifier, &proof, &pi2, PlonkVersion::V3, &env_v);
        }
    }
    ctx.st.steps += 3;
}

/// One interleaved operation of the process history.  `cheap_only`: the run's circuit is large,
/// serve only what costs milliseconds (or rarely the full twin).
pub fn noise(ctx: &mut RunCtx, sc: &Scenario, h: &mut Rng, cheap_only: bool) {
    let kind = h.below(10);
    let full_ok = !cheap_only || h.chance(1, 6);
    match kind {
        // the same label, constraint count and size, another circuit
        0 | 1 if full_ok => {
            if let Some(p) = same_size_twin(sc, h) {
                ctx.st.fault("history.same_label_same_size_other_circuit");
                let reload = h.chance(1, 3);
                let compressed = h.chance(1, 4);
                serve(ctx, &sc.label, p, sc.degree, h, reload, compressed);
                return;
            }
        }
        // the same circuit under a sibling label
        2 if full_ok => {
            let (l, _) = label_variant(&sc.label, h);
            if l != sc.label {
                ctx.st.fault("history.same_circuit_sibling_label");
                let reload = h.chance(1, 3);
                serve(ctx, &l, (*sc.prog).clone(), sc.degree, h, reload, false);
                return;
            }
        }
        // the same label at another size (one row more: possibly the next power of two)
        3 if full_ok => {
            let mut p = (*sc.prog).clone();
            let extra = *h.pick(&[1usize, 2, 7, 8, 9]);
            p.ops.push(Op::Filler(extra));
            if let Some(c) = count_constraints(&p) {
                ctx.st.fault("history.same_label_other_size");
                serve(ctx, &sc.label, p, deploy::min_degree_for(c) * 2, h, false, false);
                return;
            }
        }
        // the same circuit followed by rows with non-zero wires: more live rows than ours, in the
        // same or the next domain (what a buffer recycled between proofs would still hold)
        6 if full_ok => {
            let mut p = (*sc.prog).clone();
            let extra = *h.pick(&[1usize, 3, 8, 20, 70]);
            for _ in 0..extra {
                p.ops.push(Op::AssertEqConst(h.scalar()));
            }
            if let Some(c) = count_constraints(&p) {
                ctx.st.fault("history.longer_circuit_with_live_rows");
                let (l, _) = label_variant(&sc.label, h);
                let label = if h.chance(1, 2) { sc.label.clone() } else { l };
                serve(ctx, &label, p, deploy::min_degree_for(c), h, false, false);
                return;
            }
        }
        // kernels on the same and neighbouring domain sizes
        4 | 5 => {
            let n = sc.constraints.next_power_of_two();
            let size = *h.pick(&[n, 2 * n, 4 * n, 8 * n, (n / 2).max(1), 4096]);
            let len = 1 + h.usize(size.min(4096));
            let v: Vec<BlsScalar> = (0..len).map(|_| h.scalar()).collect();
            let env = ctx.env(h);
            let which = h.below(6);
            let _ = under(&env, || match which {
                0 => dusk_plonk::verif::kernels::fft(size, &v).map(|_| ()),
                1 => dusk_plonk::verif::kernels::coset_fft(size, &v).map(|_| ()),
                2 => dusk_plonk::verif::kernels::ifft(size, &v).map(|_| ()),
                3 => dusk_plonk::verif::kernels::coset_ifft(size, &v).map(|_| ()),
                4 => dusk_plonk::verif::kernels::lagrange_coefficients(size, v[0]).map(|_| ()),
                _ => {
                    let mut w = v.clone();
                    dusk_plonk::verif::kernels::batch_inversion(&mut w);
                    Ok(())
                }
            });
            ctx.st.fault("history.kernels_on_neighbouring_domains");
            ctx.st.steps += 1;
            return;
        }
        _ => {}
    }
    // an unrelated tiny deployment whose label is related to ours
    let mut label = sc.label.clone();
    match h.below(7) {
        4 => {
            if let Some(b) = label.last_mut() {
                *b ^= 0x55;
            }
        }
        5 | 6 => {
            if !label.is_empty() {
                let i = h.usize(label.len());
                label[i] ^= 1 << h.below(8);
            }
        }
        0 => label.push(h.below(256) as u8),
        1 => {
            label.pop();
        }
        2 => label.clear(),
        _ => {
            if let Some(b) = label.first_mut() {
                *b ^= 1;
            }
        }
    }
    let prog = Arc::new(Program { ops: vec![Op::Filler(1 + h.usize(3))] });
    let env = ctx.env(h);
    let pp = deploy::pp_with_degree(16);
    let _ = deploy::compile(&pp, &label, &prog, Route::WithCircuit, &env);
    ctx.st.fault("history.related_label_tiny_deployment");
    ctx.st.steps += 1;
}

#[allow(unused)]
fn _canon() -> EnvCfg {
    EnvCfg::canonical()
}

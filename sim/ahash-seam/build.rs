#![deny(warnings)]

use std::env;

fn main() {
    println!("cargo:rerun-if-changed=build.rs");
    if let Some(channel) = version_check::Channel::read() {
        if channel.supports_features() {
            println!("cargo:rustc-cfg=feature=\"specialize\"");
            if version_check::Version::read().map_or(false, |v| v.at_most("1.77.9")) {
                println!("cargo:rustc-cfg=feature=\"stdsimd\"");
            }
        }
    }
    let os = env::var("CARGO_CFG_TARGET_OS").expect("CARGO_CFG_TARGET_OS was not set");
    if os.eq_ignore_ascii_case("linux")
        || os.eq_ignore_ascii_case("android")
        || os.eq_ignore_ascii_case("windows")
        || os.eq_ignore_ascii_case("macos")
        || os.eq_ignore_ascii_case("ios")
        || os.eq_ignore_ascii_case("freebsd")
        || os.eq_ignore_ascii_case("openbsd")
        || os.eq_ignore_ascii_case("dragonfly")
        || os.eq_ignore_ascii_case("solaris")
        || os.eq_ignore_ascii_case("illumos")
        || os.eq_ignore_ascii_case("fuchsia")
        || os.eq_ignore_ascii_case("redox")
        || os.eq_ignore_ascii_case("cloudabi")
        || os.eq_ignore_ascii_case("haiku")
        || os.eq_ignore_ascii_case("vxworks")
        || os.eq_ignore_ascii_case("emscripten")
        || os.eq_ignore_ascii_case("wasi")
    {
        println!("cargo:rustc-cfg=feature=\"runtime-rng\"");
    }
    let arch = env::var("CARGO_CFG_TARGET_ARCH").expect("CARGO_CFG_TARGET_ARCH was not set");
    if arch.eq_ignore_ascii_case("x86_64")
        || arch.eq_ignore_ascii_case("aarch64")
        || arch.eq_ignore_ascii_case("mips64")
        || arch.eq_ignore_ascii_case("powerpc64")
        || arch.eq_ignore_ascii_case("riscv64gc")
        || arch.eq_ignore_ascii_case("s390x")
    {
        println!("cargo:rustc-cfg=feature=\"folded_multiply\"");
    }

}

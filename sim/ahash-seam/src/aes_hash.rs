use crate::convert::*;
#[cfg(feature = "specialize")]
use crate::fallback_hash::MULTIPLE;
use crate::operations::*;
use crate::RandomState;
use core::hash::Hasher;
use crate::random_state::PI;

/// A `Hasher` for hashing an arbitrary stream of bytes.
///
/// Instances of [`AHasher`] represent state that is updated while hashing data.
///
/// Each method updates the internal state based on the new data provided. Once
/// all of the data has been provided, the resulting hash can be obtained by calling
/// `finish()`
///
/// [Clone] is also provided in case you wish to calculate hashes for two different items that
/// start with the same data.
///
#[derive(Debug, Clone)]
pub struct AHasher {
    enc: u128,
    sum: u128,
    key: u128,
}

impl AHasher {
    /// Creates a new hasher keyed to the provided keys.
    ///
    /// Normally hashers are created via `AHasher::default()` for fixed keys or `RandomState::new()` for randomly
    /// generated keys and `RandomState::with_seeds(a,b)` for seeds that are set and can be reused. All of these work at
    /// map creation time (and hence don't have any overhead on a per-item bais).
    ///
    /// This method directly creates the hasher instance and performs no transformation on the provided seeds. This may
    /// be useful where a HashBuilder is not desired, such as for testing purposes.
    ///
    /// # Example
    ///
    /// ```
    /// use std::hash::Hasher;
    /// use ahash::AHasher;
    ///
    /// let mut hasher = AHasher::new_with_keys(1234, 5678);
    ///
    /// hasher.write_u32(1989);
    /// hasher.write_u8(11);
    /// hasher.write_u8(9);
    /// hasher.write(b"Huh?");
    ///
    /// println!("Hash is {:x}!", hasher.finish());
    /// ```
    #[inline]
    pub fn new_with_keys(key1: u128, key2: u128) -> Self {
        let pi: [u128; 2] = PI.convert();
        let key1 = key1 ^ pi[0];
        let key2 = key2 ^ pi[1];
        Self {
            enc: key1,
            sum: key2,
            key: key1 ^ key2,
        }
    }

    #[allow(unused)] // False positive
    pub(crate) fn test_with_keys(key1: u128, key2: u128) -> Self {
        Self {
            enc: key1,
            sum: key2,
            key: key1 ^ key2,
        }
    }


    #[inline]
    pub(crate) fn from_random_state(rand_state: &RandomState) -> Self {
        let key1 = [rand_state.k0, rand_state.k1].convert();
        let key2 = [rand_state.k2, rand_state.k3].convert();
        Self {
            enc: key1,
            sum: key2,
            key: key1 ^ key2,
        }
    }

    #[inline(always)]
    fn add_in_length(&mut self, length: u64) {
        //This will be scrambled by the next AES round.
        let mut enc: [u64; 2] = self.enc.convert();
        enc[0] = enc[0].wrapping_add(length);
        self.enc = enc.convert();
    }

    #[inline(always)]
    fn hash_in(&mut self, new_value: u128) {
        self.enc = aesenc(self.enc, new_value);
        self.sum = shuffle_and_add(self.sum, new_value);
    }

    #[inline(always)]
    fn hash_in_2(&mut self, v1: u128, v2: u128) {
        self.enc = aesenc(self.enc, v1);
        self.sum = shuffle_and_add(self.sum, v1);
        self.enc = aesenc(self.enc, v2);
        self.sum = shuffle_and_add(self.sum, v2);
    }

    #[inline]
    #[cfg(feature = "specialize")]
    fn short_finish(&self) -> u64 {
        let combined = aesdec(self.sum, self.enc);
        let result: [u64; 2] = aesenc(combined, combined).convert();
        result[0]
    }
}

/// Provides [Hasher] methods to hash all of the primitive types.
///
/// [Hasher]: core::hash::Hasher
impl Hasher for AHasher {
    #[inline]
    fn write_u8(&mut self, i: u8) {
        self.write_u64(i as u64);
    }

    #[inline]
    fn write_u16(&mut self, i: u16) {
        self.write_u64(i as u64);
    }

    #[inline]
    fn write_u32(&mut self, i: u32) {
        self.write_u64(i as u64);
    }

    #[inline]
    fn write_u128(&mut self, i: u128) {
        self.hash_in(i);
    }

    #[inline]
    #[cfg(any(target_pointer_width = "64", target_pointer_width = "32", target_pointer_width = "16"))]
    fn write_usize(&mut self, i: usize) {
        self.write_u64(i as u64);
    }

    #[inline]
    #[cfg(target_pointer_width = "128")]
    fn write_usize(&mut self, i: usize) {
        self.write_u128(i as u128);
    }

    #[inline]
    fn write_u64(&mut self, i: u64) {
        self.write_u128(i as u128);
    }

    #[inline]
    #[allow(clippy::collapsible_if)]
    fn write(&mut self, input: &[u8]) {
        let mut data = input;
        let length = data.len();
        self.add_in_length(length as u64);
        //A 'binary search' on sizes reduces the number of comparisons.
        if data.len() <= 8 {
            let value = read_small(data);
            self.hash_in(value.convert());
        } else {
            if data.len() > 32 {
                if data.len() > 64 {
                    let tail = data.read_last_u128x4();
                    let mut current: [u128; 4] = [self.key; 4];
                    current[0] = aesenc(current[0], tail[0]);
                    current[1] = aesdec(current[1], tail[1]);
                    current[2] = aesenc(current[2], tail[2]);
                    current[3] = aesdec(current[3], tail[3]);
                    let mut sum: [u128; 2] = [self.key, !self.key];
                    sum[0] = add_by_64s(sum[0].convert(), tail[0].convert()).convert();
                    sum[1] = add_by_64s(sum[1].convert(), tail[1].convert()).convert();
                    sum[0] = shuffle_and_add(sum[0], tail[2]);
                    sum[1] = shuffle_and_add(sum[1], tail[3]);
                    while data.len() > 64 {
                        let (blocks, rest) = data.read_u128x4();
                        current[0] = aesenc(current[0], blocks[0]);
                        current[1] = aesenc(current[1], blocks[1]);
                        current[2] = aesenc(current[2], blocks[2]);
                        current[3] = aesenc(current[3], blocks[3]);
                        sum[0] = shuffle_and_add(sum[0], blocks[0]);
                        sum[1] = shuffle_and_add(sum[1], blocks[1]);
                        sum[0] = shuffle_and_add(sum[0], blocks[2]);
                        sum[1] = shuffle_and_add(sum[1], blocks[3]);
                        data = rest;
                    }
                    self.hash_in_2(current[0], current[1]);
                    self.hash_in_2(current[2], current[3]);
                    self.hash_in_2(sum[0], sum[1]);
                } else {
                    //len 33-64
                    let (head, _) = data.read_u128x2();
                    let tail = data.read_last_u128x2();
                    self.hash_in_2(head[0], head[1]);
                    self.hash_in_2(tail[0], tail[1]);
                }
            } else {
                if data.len() > 16 {
                    //len 17-32
                    self.hash_in_2(data.read_u128().0, data.read_last_u128());
                } else {
                    //len 9-16
                    let value: [u64; 2] = [data.read_u64().0, data.read_last_u64()];
                    self.hash_in(value.convert());
                }
            }
        }
    }
    #[inline]
    fn finish(&self) -> u64 {
        let combined = aesdec(self.sum, self.enc);
        let result: [u64; 2] = aesenc(aesenc(combined, self.key), combined).convert();
        result[1]
    }
}

#[cfg(feature = "specialize")]
pub(crate) struct AHasherU64 {
    pub(crate) buffer: u64,
    pub(crate) pad: u64,
}

/// A specialized hasher for only primitives under 64 bits.
#[cfg(feature = "specialize")]
impl Hasher for AHasherU64 {
    #[inline]
    fn finish(&self) -> u64 {
        let rot = (self.pad & 63) as u32;
        self.buffer.rotate_left(rot)
    }

    #[inline]
    fn write(&mut self, _bytes: &[u8]) {
        unreachable!("Specialized hasher was called with a different type of object")
    }

    #[inline]
    fn write_u8(&mut self, i: u8) {
        self.write_u64(i as u64);
    }

    #[inline]
    fn write_u16(&mut self, i: u16) {
        self.write_u64(i as u64);
    }

    #[inline]
    fn write_u32(&mut self, i: u32) {
        self.write_u64(i as u64);
    }

    #[inline]
    fn write_u64(&mut self, i: u64) {
        self.buffer = folded_multiply(i ^ self.buffer, MULTIPLE);
    }

    #[inline]
    fn write_u128(&mut self, _i: u128) {
        unreachable!("Specialized hasher was called with a different type of object")
    }

    #[inline]
    fn write_usize(&mut self, _i: usize) {
        unreachable!("Specialized hasher was called with a different type of object")
    }
}

#[cfg(feature = "specialize")]
pub(crate) struct AHasherFixed(pub AHasher);

/// A specialized hasher for fixed size primitives larger than 64 bits.
#[cfg(feature = "specialize")]
impl Hasher for AHasherFixed {
    #[inline]
    fn finish(&self) -> u64 {
        self.0.short_finish()
    }

    #[inline]
    fn write(&mut self, bytes: &[u8]) {
        self.0.write(bytes)
    }

    #[inline]
    fn write_u8(&mut self, i: u8) {
        self.write_u64(i as u64);
    }

    #[inline]
    fn write_u16(&mut self, i: u16) {
        self.write_u64(i as u64);
    }

    #[inline]
    fn write_u32(&mut self, i: u32) {
        self.write_u64(i as u64);
    }

    #[inline]
    fn write_u64(&mut self, i: u64) {
        self.0.write_u64(i);
    }

    #[inline]
    fn write_u128(&mut self, i: u128) {
        self.0.write_u128(i);
    }

    #[inline]
    fn write_usize(&mut self, i: usize) {
        self.0.write_usize(i);
    }
}

#[cfg(feature = "specialize")]
pub(crate) struct AHasherStr(pub AHasher);

/// A specialized hasher for strings
/// Note that the other types don't panic because the hash impl for String tacks on an unneeded call. (As does vec)
#[cfg(feature = "specialize")]
impl Hasher for AHasherStr {
    #[inline]
    fn finish(&self) -> u64 {
        let result : [u64; 2] = self.0.enc.convert();
        result[0]
    }

    #[inline]
    fn write(&mut self, bytes: &[u8]) {
        if bytes.len() > 8 {
            self.0.write(bytes);
            self.0.enc = aesdec(self.0.sum, self.0.enc);
            self.0.enc = aesenc(aesenc(self.0.enc, self.0.key), self.0.enc);
        } else {
            self.0.add_in_length(bytes.len() as u64);
            let value = read_small(bytes).convert();
            self.0.sum = shuffle_and_add(self.0.sum, value);
            self.0.enc = aesdec(self.0.sum, self.0.enc);
            self.0.enc = aesenc(aesenc(self.0.enc, self.0.key), self.0.enc);
        }
    }

    #[inline]
    fn write_u8(&mut self, _i: u8) {}

    #[inline]
    fn write_u16(&mut self, _i: u16) {}

    #[inline]
    fn write_u32(&mut self, _i: u32) {}

    #[inline]
    fn write_u64(&mut self, _i: u64) {}

    #[inline]
    fn write_u128(&mut self, _i: u128) {}

    #[inline]
    fn write_usize(&mut self, _i: usize) {}
}

#[cfg(test)]
mod tests {
    use super::*;
    use crate::convert::Convert;
    use crate::operations::aesenc;
    use crate::RandomState;
    use std::hash::{BuildHasher, Hasher};
    #[test]
    fn test_sanity() {
        let mut hasher = RandomState::with_seeds(1, 2, 3, 4).build_hasher();
        hasher.write_u64(0);
        let h1 = hasher.finish();
        hasher.write(&[1, 0, 0, 0, 0, 0, 0, 0]);
        let h2 = hasher.finish();
        assert_ne!(h1, h2);
    }

    #[cfg(feature = "compile-time-rng")]
    #[test]
    fn test_builder() {
        use std::collections::HashMap;
        use std::hash::BuildHasherDefault;

        let mut map = HashMap::<u32, u64, BuildHasherDefault<AHasher>>::default();
        map.insert(1, 3);
    }

    #[cfg(feature = "compile-time-rng")]
    #[test]
    fn test_default() {
        let hasher_a = AHasher::default();
        let a_enc: [u64; 2] = hasher_a.enc.convert();
        let a_sum: [u64; 2] = hasher_a.sum.convert();
        assert_ne!(0, a_enc[0]);
        assert_ne!(0, a_enc[1]);
        assert_ne!(0, a_sum[0]);
        assert_ne!(0, a_sum[1]);
        assert_ne!(a_enc[0], a_enc[1]);
        assert_ne!(a_sum[0], a_sum[1]);
        assert_ne!(a_enc[0], a_sum[0]);
        assert_ne!(a_enc[1], a_sum[1]);
        let hasher_b = AHasher::default();
        let b_enc: [u64; 2] = hasher_b.enc.convert();
        let b_sum: [u64; 2] = hasher_b.sum.convert();
        assert_eq!(a_enc[0], b_enc[0]);
        assert_eq!(a_enc[1], b_enc[1]);
        assert_eq!(a_sum[0], b_sum[0]);
        assert_eq!(a_sum[1], b_sum[1]);
    }

    #[test]
    fn test_hash() {
        let mut result: [u64; 2] = [0x6c62272e07bb0142, 0x62b821756295c58d];
        let value: [u64; 2] = [1 << 32, 0xFEDCBA9876543210];
        result = aesenc(value.convert(), result.convert()).convert();
        result = aesenc(result.convert(), result.convert()).convert();
        let mut result2: [u64; 2] = [0x6c62272e07bb0142, 0x62b821756295c58d];
        let value2: [u64; 2] = [1, 0xFEDCBA9876543210];
        result2 = aesenc(value2.convert(), result2.convert()).convert();
        result2 = aesenc(result2.convert(), result.convert()).convert();
        let result: [u8; 16] = result.convert();
        let result2: [u8; 16] = result2.convert();
        assert_ne!(hex::encode(result), hex::encode(result2));
    }

    #[test]
    fn test_conversion() {
        let input: &[u8] = "dddddddd".as_bytes();
        let bytes: u64 = as_array!(input, 8).convert();
        assert_eq!(bytes, 0x6464646464646464);
    }
}


use core::hash::{Hash, Hasher};
use std::collections::{HashMap};

fn assert_sufficiently_different(a: u64, b: u64, tolerance: i32) {
    let (same_byte_count, same_nibble_count) = count_same_bytes_and_nibbles(a, b);
    assert!(same_byte_count <= tolerance, "{:x} vs {:x}: {:}", a, b, same_byte_count);
    assert!(
        same_nibble_count <= tolerance * 3,
        "{:x} vs {:x}: {:}",
        a,
        b,
        same_nibble_count
    );
    let flipped_bits = (a ^ b).count_ones();
    assert!(
        flipped_bits > 12 && flipped_bits < 52,
        "{:x} and {:x}: {:}",
        a,
        b,
        flipped_bits
    );
    for rotate in 0..64 {
        let flipped_bits2 = (a ^ (b.rotate_left(rotate))).count_ones();
        assert!(
            flipped_bits2 > 10 && flipped_bits2 < 54,
            "{:x} and {:x}: {:}",
            a,
            b.rotate_left(rotate),
            flipped_bits2
        );
    }
}

fn count_same_bytes_and_nibbles(a: u64, b: u64) -> (i32, i32) {
    let mut same_byte_count = 0;
    let mut same_nibble_count = 0;
    for byte in 0..8 {
        let ba = (a >> (8 * byte)) as u8;
        let bb = (b >> (8 * byte)) as u8;
        if ba == bb {
            same_byte_count += 1;
        }
        if ba & 0xF0u8 == bb & 0xF0u8 {
            same_nibble_count += 1;
        }
        if ba & 0x0Fu8 == bb & 0x0Fu8 {
            same_nibble_count += 1;
        }
    }
    (same_byte_count, same_nibble_count)
}

fn gen_combinations(options: &[u32; 8], depth: u32, so_far: Vec<u32>, combinations: &mut Vec<Vec<u32>>) {
    if depth == 0 {
        return;
    }
    for option in options {
        let mut next = so_far.clone();
        next.push(*option);
        combinations.push(next.clone());
        gen_combinations(options, depth - 1, next, combinations);
    }
}

fn test_no_full_collisions<T: Hasher>(gen_hash: impl Fn() -> T) {
    let options: [u32; 8] = [
        0x00000000, 0x20000000, 0x40000000, 0x60000000, 0x80000000, 0xA0000000, 0xC0000000, 0xE0000000,
    ];
    let mut combinations = Vec::new();
    gen_combinations(&options, 7, Vec::new(), &mut combinations);
    let mut map: HashMap<u64, Vec<u8>> = HashMap::new();
    for combination in combinations {
        let array = unsafe {
            let (begin, middle, end) = combination.align_to::<u8>();
            assert_eq!(0, begin.len());
            assert_eq!(0, end.len());
            middle.to_vec()
        };
        let mut hasher = gen_hash();
        hasher.write(&array);
        let hash = hasher.finish();
        if let Some(value) = map.get(&hash) {
            assert_eq!(
                value, &array,
                "Found a collision between {:x?} and {:x?}. Hash: {:x?}",
                value, &array, &hash
            );
        } else {
            map.insert(hash, array);
        }
    }
    assert_eq!(2396744, map.len());
}

fn test_keys_change_output<T: Hasher>(constructor: impl Fn(u128, u128) -> T) {
    let mut a = constructor(1, 1);
    let mut b = constructor(1, 2);
    let mut c = constructor(2, 1);
    let mut d = constructor(2, 2);
    "test".hash(&mut a);
    "test".hash(&mut b);
    "test".hash(&mut c);
    "test".hash(&mut d);
    assert_sufficiently_different(a.finish(), b.finish(), 1);
    assert_sufficiently_different(a.finish(), c.finish(), 1);
    assert_sufficiently_different(a.finish(), d.finish(), 1);
    assert_sufficiently_different(b.finish(), c.finish(), 1);
    assert_sufficiently_different(b.finish(), d.finish(), 1);
    assert_sufficiently_different(c.finish(), d.finish(), 1);
}

fn test_input_affect_every_byte<T: Hasher>(constructor: impl Fn(u128, u128) -> T) {
    let base = hash_with(&0, constructor(0, 0));
    for shift in 0..16 {
        let mut alternitives = vec![];
        for v in 0..256 {
            let input = (v as u128) << (shift * 8);
            let hasher = constructor(0, 0);
            alternitives.push(hash_with(&input, hasher));
        }
        assert_each_byte_differs(shift, base, alternitives);
    }
}

///Ensures that for every bit in the output there is some value for each byte in the key that flips it.
fn test_keys_affect_every_byte<H: Hash, T: Hasher>(item: H, constructor: impl Fn(u128, u128) -> T) {
    let base = hash_with(&item, constructor(0, 0));
    for shift in 0..16 {
        let mut alternitives1 = vec![];
        let mut alternitives2 = vec![];
        for v in 0..256 {
            let input = (v as u128) << (shift * 8);
            let hasher1 = constructor(input, 0);
            let hasher2 = constructor(0, input);
            let h1 = hash_with(&item, hasher1);
            let h2 = hash_with(&item, hasher2);
            alternitives1.push(h1);
            alternitives2.push(h2);
        }
        assert_each_byte_differs(shift, base, alternitives1);
        assert_each_byte_differs(shift, base, alternitives2);
    }
}

fn assert_each_byte_differs(num: u64, base: u64, alternitives: Vec<u64>) {
    let mut changed_bits = 0_u64;
    for alternitive in alternitives {
        changed_bits |= base ^ alternitive
    }
    assert_eq!(core::u64::MAX, changed_bits, "Bits changed: {:x} on num: {:?}", changed_bits, num);
}

fn test_finish_is_consistent<T: Hasher>(constructor: impl Fn(u128, u128) -> T) {
    let mut hasher = constructor(1, 2);
    "Foo".hash(&mut hasher);
    let a = hasher.finish();
    let b = hasher.finish();
    assert_eq!(a, b);
}

fn test_single_key_bit_flip<T: Hasher>(constructor: impl Fn(u128, u128) -> T) {
    for bit in 0..128 {
        let mut a = constructor(0, 0);
        let mut b = constructor(0, 1 << bit);
        let mut c = constructor(1 << bit, 0);
        "1234".hash(&mut a);
        "1234".hash(&mut b);
        "1234".hash(&mut c);
        assert_sufficiently_different(a.finish(), b.finish(), 2);
        assert_sufficiently_different(a.finish(), c.finish(), 2);
        assert_sufficiently_different(b.finish(), c.finish(), 2);
        let mut a = constructor(0, 0);
        let mut b = constructor(0, 1 << bit);
        let mut c = constructor(1 << bit, 0);
        "12345678".hash(&mut a);
        "12345678".hash(&mut b);
        "12345678".hash(&mut c);
        assert_sufficiently_different(a.finish(), b.finish(), 2);
        assert_sufficiently_different(a.finish(), c.finish(), 2);
        assert_sufficiently_different(b.finish(), c.finish(), 2);
        let mut a = constructor(0, 0);
        let mut b = constructor(0, 1 << bit);
        let mut c = constructor(1 << bit, 0);
        "1234567812345678".hash(&mut a);
        "1234567812345678".hash(&mut b);
        "1234567812345678".hash(&mut c);
        assert_sufficiently_different(a.finish(), b.finish(), 2);
        assert_sufficiently_different(a.finish(), c.finish(), 2);
        assert_sufficiently_different(b.finish(), c.finish(), 2);
    }
}

fn test_all_bytes_matter<T: Hasher>(hasher: impl Fn() -> T) {
    let mut item = vec![0; 256];
    let base_hash = hash(&item, &hasher);
    for pos in 0..256 {
        item[pos] = 255;
        let hash = hash(&item, &hasher);
        assert_ne!(base_hash, hash, "Position {} did not affect output", pos);
        item[pos] = 0;
    }
}

fn test_no_pair_collisions<T: Hasher>(hasher: impl Fn() -> T) {
    let base = [0_u64, 0_u64];
    let base_hash = hash(&base, &hasher);
    for bitpos1 in 0..64 {
        let a = 1_u64 << bitpos1;
        for bitpos2 in 0..bitpos1 {
            let b = 1_u64 << bitpos2;
            let aa = hash(&[a, a], &hasher);
            let ab = hash(&[a, b], &hasher);
            let ba = hash(&[b, a], &hasher);
            let bb = hash(&[b, b], &hasher);
            assert_sufficiently_different(base_hash, aa, 3);
            assert_sufficiently_different(base_hash, ab, 3);
            assert_sufficiently_different(base_hash, ba, 3);
            assert_sufficiently_different(base_hash, bb, 3);
            assert_sufficiently_different(aa, ab, 3);
            assert_sufficiently_different(ab, ba, 3);
            assert_sufficiently_different(ba, bb, 3);
            assert_sufficiently_different(aa, ba, 3);
            assert_sufficiently_different(ab, bb, 3);
            assert_sufficiently_different(aa, bb, 3);
        }
    }
}

fn hash<H: Hash, T: Hasher>(b: &H, hash_builder: &dyn Fn() -> T) -> u64 {
    let mut hasher = hash_builder();
    b.hash(&mut hasher);
    hasher.finish()
}

fn hash_with<H: Hash, T: Hasher>(b: &H, mut hasher: T) -> u64 {
    b.hash(&mut hasher);
    hasher.finish()
}

fn test_single_bit_flip<T: Hasher>(hasher: impl Fn() -> T) {
    let size = 32;
    let compare_value = hash(&0u32, &hasher);
    for pos in 0..size {
        let test_value = hash(&(1u32 << pos), &hasher);
        assert_sufficiently_different(compare_value, test_value, 2);
    }
    let size = 64;
    let compare_value = hash(&0u64, &hasher);
    for pos in 0..size {
        let test_value = hash(&(1u64 << pos), &hasher);
        assert_sufficiently_different(compare_value, test_value, 2);
    }
    let size = 128;
    let compare_value = hash(&0u128, &hasher);
    for pos in 0..size {
        let test_value = hash(&(1u128 << pos), &hasher);
        dbg!(compare_value, test_value);
        assert_sufficiently_different(compare_value, test_value, 2);
    }
}

fn test_padding_doesnot_collide<T: Hasher>(hasher: impl Fn() -> T) {
    for c in 0..128u8 {
        for string in ["", "\0", "\x01", "1234", "12345678", "1234567812345678"].iter() {
            let mut short = hasher();
            string.hash(&mut short);
            let value = short.finish();
            let mut padded = string.to_string();
            for num in 1..=128 {
                let mut long = hasher();
                padded.push(c as char);
                padded.hash(&mut long);
                let (same_bytes, same_nibbles) = count_same_bytes_and_nibbles(value, long.finish());
                assert!(
                    same_bytes <= 3,
                    "{} bytes of {} -> {:x} vs {:x}", num, c, value, long.finish()
                );
                assert!(
                    same_nibbles <= 8,
                    "{} bytes of {} -> {:x} vs {:x}", num, c, value, long.finish()
                );
                let flipped_bits = (value ^ long.finish()).count_ones();
                assert!(flipped_bits > 10);
            }
            if string.len() > 0 {
                let mut padded = string[1..].to_string();
                padded.push(c as char);
                for num in 2..=128 {
                    let mut long = hasher();
                    padded.push(c as char);
                    padded.hash(&mut long);
                    let (same_bytes, same_nibbles) = count_same_bytes_and_nibbles(value, long.finish());
                    assert!(
                        same_bytes <= 3,
                        "string {:?} + {} bytes of {} -> {:x} vs {:x}",
                        string,
                        num,
                        c,
                        value,
                        long.finish()
                    );
                    assert!(
                        same_nibbles <= 8,
                        "string {:?} + {} bytes of {} -> {:x} vs {:x}",
                        string,
                        num,
                        c,
                        value,
                        long.finish()
                    );
                    let flipped_bits = (value ^ long.finish()).count_ones();
                    assert!(flipped_bits > 10);
                }
            }
        }
    }
}

fn test_length_extension<T: Hasher>(hasher: impl Fn(u128, u128) -> T) {
    for key in 0..256 {
        let h1 = hasher(key, key);
        let v1 = hash_with(&[0_u8, 0, 0, 0, 0, 0, 0, 0], h1);
        let h2 = hasher(key, key);
        let v2 = hash_with(&[1_u8, 0, 0, 0, 0, 0, 0, 0, 0], h2);
        assert_ne!(v1, v2);
    }
}

fn test_sparse<T: Hasher>(hasher: impl Fn() -> T) {
    let mut buf = [0u8; 256];
    let mut hashes = HashMap::new();
    for idx_1 in 0..256 {
        for idx_2 in idx_1+1..256 {
            for value_1 in [1, 2, 4, 8, 16, 32, 64, 128] {
                for value_2 in [1, 2, 3, 4, 5, 6, 7, 8, 9, 10, 12, 15, 16, 17, 18, 20, 24, 31, 32, 33, 48, 64, 96, 127, 128, 129, 192, 254, 255] {
                    buf[idx_1] = value_1;
                    buf[idx_2] = value_2;
                    let hash_value = hash_with(&buf, &mut hasher());
                    let keys = hashes.entry(hash_value).or_insert(Vec::new());
                    keys.push((idx_1, value_1, idx_2, value_2));
                    buf[idx_1] = 0;
                    buf[idx_2] = 0;
                }
            }
        }
    }
    hashes.retain(|_key, value| value.len() != 1);
    assert_eq!(0, hashes.len(), "Collision with: {:?}", hashes);
}

#[cfg(test)]
mod fallback_tests {
    use crate::fallback_hash::*;
    use crate::hash_quality_test::*;

    #[test]
    fn fallback_single_bit_flip() {
        test_single_bit_flip(|| AHasher::new_with_keys(0, 0))
    }

    #[test]
    fn fallback_single_key_bit_flip() {
        test_single_key_bit_flip(AHasher::new_with_keys)
    }

    #[test]
    fn fallback_all_bytes_matter() {
        test_all_bytes_matter(|| AHasher::new_with_keys(0, 0));
    }

    #[test]
    fn fallback_test_no_pair_collisions() {
        test_no_pair_collisions(|| AHasher::new_with_keys(0, 0));
    }

    #[test]
    fn fallback_test_no_full_collisions() {
        test_no_full_collisions(|| AHasher::new_with_keys(0, 0));
    }

    #[test]
    fn fallback_keys_change_output() {
        test_keys_change_output(AHasher::new_with_keys);
    }

    #[test]
    fn fallback_input_affect_every_byte() {
        test_input_affect_every_byte(AHasher::new_with_keys);
    }

    #[test]
    fn fallback_keys_affect_every_byte() {
        //For fallback second key is not used in every hash.
        #[cfg(all(not(feature = "specialize"), feature = "folded_multiply"))]
            test_keys_affect_every_byte(0, |a, b| AHasher::new_with_keys(a ^ b, a));
        test_keys_affect_every_byte("", |a, b| AHasher::new_with_keys(a ^ b, a));
        test_keys_affect_every_byte((0, 0), |a, b| AHasher::new_with_keys(a ^ b, a));
    }

    #[test]
    fn fallback_finish_is_consistant() {
        test_finish_is_consistent(AHasher::test_with_keys)
    }

    #[test]
    fn fallback_padding_doesnot_collide() {
        test_padding_doesnot_collide(|| AHasher::new_with_keys(0, 0));
        test_padding_doesnot_collide(|| AHasher::new_with_keys(0, 2));
        test_padding_doesnot_collide(|| AHasher::new_with_keys(2, 0));
        test_padding_doesnot_collide(|| AHasher::new_with_keys(2, 2));
    }

    #[test]
    fn fallback_length_extension() {
        test_length_extension(|a, b| AHasher::new_with_keys(a, b));
    }

    #[test]
    fn test_no_sparse_collisions() {
        test_sparse(|| AHasher::new_with_keys(0, 0));
        test_sparse(|| AHasher::new_with_keys(1, 2));
    }
}

///Basic sanity tests of the cypto properties of aHash.
#[cfg(any(
    all(any(target_arch = "x86", target_arch = "x86_64"), target_feature = "aes", not(miri)),
    all(any(target_arch = "arm", target_arch = "aarch64"), target_feature = "crypto", not(miri), feature = "stdsimd")
))]
#[cfg(test)]
mod aes_tests {
    use crate::aes_hash::*;
    use crate::hash_quality_test::*;
    use std::hash::{Hash, Hasher};

    //This encrypts to 0.
    const BAD_KEY2: u128 = 0x6363_6363_6363_6363_6363_6363_6363_6363;
    //This decrypts to 0.
    const BAD_KEY: u128 = 0x5252_5252_5252_5252_5252_5252_5252_5252;

    #[test]
    fn test_single_bit_in_byte() {
        let mut hasher1 = AHasher::test_with_keys(0, 0);
        8_u32.hash(&mut hasher1);
        let mut hasher2 = AHasher::test_with_keys(0, 0);
        0_u32.hash(&mut hasher2);
        assert_sufficiently_different(hasher1.finish(), hasher2.finish(), 1);
    }

    #[test]
    fn aes_single_bit_flip() {
        test_single_bit_flip(|| AHasher::test_with_keys(BAD_KEY, BAD_KEY));
        test_single_bit_flip(|| AHasher::test_with_keys(BAD_KEY2, BAD_KEY2));
    }

    #[test]
    fn aes_single_key_bit_flip() {
        test_single_key_bit_flip(AHasher::test_with_keys)
    }

    #[test]
    fn aes_all_bytes_matter() {
        test_all_bytes_matter(|| AHasher::test_with_keys(BAD_KEY, BAD_KEY));
        test_all_bytes_matter(|| AHasher::test_with_keys(BAD_KEY2, BAD_KEY2));
    }

    #[test]
    fn aes_test_no_pair_collisions() {
        test_no_pair_collisions(|| AHasher::test_with_keys(BAD_KEY, BAD_KEY));
        test_no_pair_collisions(|| AHasher::test_with_keys(BAD_KEY2, BAD_KEY2));
    }

    #[test]
    fn ase_test_no_full_collisions() {
        test_no_full_collisions(|| AHasher::test_with_keys(12345, 67890));
    }

    #[test]
    fn aes_keys_change_output() {
        test_keys_change_output(AHasher::test_with_keys);
    }

    #[test]
    fn aes_input_affect_every_byte() {
        test_input_affect_every_byte(AHasher::test_with_keys);
    }

    #[test]
    fn aes_keys_affect_every_byte() {
        #[cfg(not(feature = "specialize"))]
            test_keys_affect_every_byte(0, AHasher::test_with_keys);
        test_keys_affect_every_byte("", AHasher::test_with_keys);
        test_keys_affect_every_byte((0, 0), AHasher::test_with_keys);
    }

    #[test]
    fn aes_finish_is_consistant() {
        test_finish_is_consistent(AHasher::test_with_keys)
    }

    #[test]
    fn aes_padding_doesnot_collide() {
        test_padding_doesnot_collide(|| AHasher::test_with_keys(BAD_KEY, BAD_KEY));
        test_padding_doesnot_collide(|| AHasher::test_with_keys(BAD_KEY2, BAD_KEY2));
    }

    #[test]
    fn aes_length_extension() {
        test_length_extension(|a, b| AHasher::test_with_keys(a, b));
    }

    #[test]
    fn aes_no_sparse_collisions() {
        test_sparse(|| AHasher::test_with_keys(0, 0));
        test_sparse(|| AHasher::test_with_keys(1, 2));
    }
}

use crate::convert::*;
use crate::operations::folded_multiply;
use crate::operations::read_small;
use crate::random_state::PI;
use crate::RandomState;
use core::hash::Hasher;

///This constant come from Kunth's prng (Empirically it works better than those from splitmix32).
pub(crate) const MULTIPLE: u64 = 6364136223846793005;
const ROT: u32 = 23; //17

/// A `Hasher` for hashing an arbitrary stream of bytes.
///
/// Instances of [`AHasher`] represent state that is updated while hashing data.
///
/// Each method updates the internal state based on the new data provided. Once
/// all of the data has been provided, the resulting hash can be obtained by calling
/// `finish()`
///
/// [Clone] is also provided in case you wish to calculate hashes for two different items that
/// start with the same data.
///
#[derive(Debug, Clone)]
pub struct AHasher {
    buffer: u64,
    pad: u64,
    extra_keys: [u64; 2],
}

impl AHasher {
    /// Creates a new hasher keyed to the provided key.
    #[inline]
    #[allow(dead_code)] // Is not called if non-fallback hash is used.
    pub fn new_with_keys(key1: u128, key2: u128) -> AHasher {
        let pi: [u128; 2] = PI.convert();
        let key1: [u64; 2] = (key1 ^ pi[0]).convert();
        let key2: [u64; 2] = (key2 ^ pi[1]).convert();
        AHasher {
            buffer: key1[0],
            pad: key1[1],
            extra_keys: key2,
        }
    }

    #[allow(unused)] // False positive
    pub(crate) fn test_with_keys(key1: u128, key2: u128) -> Self {
        let key1: [u64; 2] = key1.convert();
        let key2: [u64; 2] = key2.convert();
        Self {
            buffer: key1[0],
            pad: key1[1],
            extra_keys: key2,
        }
    }

    #[inline]
    #[allow(dead_code)] // Is not called if non-fallback hash is used.
    pub(crate) fn from_random_state(rand_state: &RandomState) -> AHasher {
        AHasher {
            buffer: rand_state.k0,
            pad: rand_state.k1,
            extra_keys: [rand_state.k2, rand_state.k3],
        }
    }

    /// This update function has the goal of updating the buffer with a single multiply
    /// FxHash does this but is vulnerable to attack. To avoid this input needs to be masked to with an
    /// unpredictable value. Other hashes such as murmurhash have taken this approach but were found vulnerable
    /// to attack. The attack was based on the idea of reversing the pre-mixing (Which is necessarily
    /// reversible otherwise bits would be lost) then placing a difference in the highest bit before the
    /// multiply used to mix the data. Because a multiply can never affect the bits to the right of it, a
    /// subsequent update that also differed in this bit could result in a predictable collision.
    ///
    /// This version avoids this vulnerability while still only using a single multiply. It takes advantage
    /// of the fact that when a 64 bit multiply is performed the upper 64 bits are usually computed and thrown
    /// away. Instead it creates two 128 bit values where the upper 64 bits are zeros and multiplies them.
    /// (The compiler is smart enough to turn this into a 64 bit multiplication in the assembly)
    /// Then the upper bits are xored with the lower bits to produce a single 64 bit result.
    ///
    /// To understand why this is a good scrambling function it helps to understand multiply-with-carry PRNGs:
    /// https://en.wikipedia.org/wiki/Multiply-with-carry_pseudorandom_number_generator
    /// If the multiple is chosen well, this creates a long period, decent quality PRNG.
    /// Notice that this function is equivalent to this except the `buffer`/`state` is being xored with each
    /// new block of data. In the event that data is all zeros, it is exactly equivalent to a MWC PRNG.
    ///
    /// This is impervious to attack because every bit buffer at the end is dependent on every bit in
    /// `new_data ^ buffer`. For example suppose two inputs differed in only the 5th bit. Then when the
    /// multiplication is performed the `result` will differ in bits 5-69. More specifically it will differ by
    /// 2^5 * MULTIPLE. However in the next step bits 65-128 are turned into a separate 64 bit value. So the
    /// differing bits will be in the lower 6 bits of this value. The two intermediate values that differ in
    /// bits 5-63 and in bits 0-5 respectively get added together. Producing an output that differs in every
    /// bit. The addition carries in the multiplication and at the end additionally mean that the even if an
    /// attacker somehow knew part of (but not all) the contents of the buffer before hand,
    /// they would not be able to predict any of the bits in the buffer at the end.
    #[inline(always)]
    #[cfg(feature = "folded_multiply")]
    fn update(&mut self, new_data: u64) {
        self.buffer = folded_multiply(new_data ^ self.buffer, MULTIPLE);
    }

    #[inline(always)]
    #[cfg(not(feature = "folded_multiply"))]
    fn update(&mut self, new_data: u64) {
        let d1 = (new_data ^ self.buffer).wrapping_mul(MULTIPLE);
        self.pad = (self.pad ^ d1).rotate_left(8).wrapping_mul(MULTIPLE);
        self.buffer = (self.buffer ^ self.pad).rotate_left(24);
    }

    /// Similar to the above this function performs an update using a "folded multiply".
    /// However it takes in 128 bits of data instead of 64. Both halves must be masked.
    ///
    /// This makes it impossible for an attacker to place a single bit difference between
    /// two blocks so as to cancel each other.
    ///
    /// However this is not sufficient. to prevent (a,b) from hashing the same as (b,a) the buffer itself must
    /// be updated between calls in a way that does not commute. To achieve this XOR and Rotate are used.
    /// Add followed by xor is not the same as xor followed by add, and rotate ensures that the same out bits
    /// can't be changed by the same set of input bits. To cancel this sequence with subsequent input would require
    /// knowing the keys.
    #[inline(always)]
    #[cfg(feature = "folded_multiply")]
    fn large_update(&mut self, new_data: u128) {
        let block: [u64; 2] = new_data.convert();
        let combined = folded_multiply(block[0] ^ self.extra_keys[0], block[1] ^ self.extra_keys[1]);
        self.buffer = (self.buffer.wrapping_add(self.pad) ^ combined).rotate_left(ROT);
    }

    #[inline(always)]
    #[cfg(not(feature = "folded_multiply"))]
    fn large_update(&mut self, new_data: u128) {
        let block: [u64; 2] = new_data.convert();
        self.update(block[0] ^ self.extra_keys[0]);
        self.update(block[1] ^ self.extra_keys[1]);
    }

    #[inline]
    #[cfg(feature = "specialize")]
    fn short_finish(&self) -> u64 {
        self.buffer.wrapping_add(self.pad)
    }
}

/// Provides [Hasher] methods to hash all of the primitive types.
///
/// [Hasher]: core::hash::Hasher
impl Hasher for AHasher {
    #[inline]
    fn write_u8(&mut self, i: u8) {
        self.update(i as u64);
    }

    #[inline]
    fn write_u16(&mut self, i: u16) {
        self.update(i as u64);
    }

    #[inline]
    fn write_u32(&mut self, i: u32) {
        self.update(i as u64);
    }

    #[inline]
    fn write_u64(&mut self, i: u64) {
        self.update(i as u64);
    }

    #[inline]
    fn write_u128(&mut self, i: u128) {
        self.large_update(i);
    }

    #[inline]
    #[cfg(any(target_pointer_width = "64", target_pointer_width = "32", target_pointer_width = "16"))]
    fn write_usize(&mut self, i: usize) {
        self.write_u64(i as u64);
    }

    #[inline]
    #[cfg(target_pointer_width = "128")]
    fn write_usize(&mut self, i: usize) {
        self.write_u128(i as u128);
    }

    #[inline]
    #[allow(clippy::collapsible_if)]
    fn write(&mut self, input: &[u8]) {
        let mut data = input;
        let length = data.len() as u64;
        //Needs to be an add rather than an xor because otherwise it could be canceled with carefully formed input.
        self.buffer = self.buffer.wrapping_add(length).wrapping_mul(MULTIPLE);
        //A 'binary search' on sizes reduces the number of comparisons.
        if data.len() > 8 {
            if data.len() > 16 {
                let tail = data.read_last_u128();
                self.large_update(tail);
                while data.len() > 16 {
                    let (block, rest) = data.read_u128();
                    self.large_update(block);
                    data = rest;
                }
            } else {
                self.large_update([data.read_u64().0, data.read_last_u64()].convert());
            }
        } else {
            let value = read_small(data);
            self.large_update(value.convert());
        }
    }

    #[inline]
    #[cfg(feature = "folded_multiply")]
    fn finish(&self) -> u64 {
        let rot = (self.buffer & 63) as u32;
        folded_multiply(self.buffer, self.pad).rotate_left(rot)
    }

    #[inline]
    #[cfg(not(feature = "folded_multiply"))]
    fn finish(&self) -> u64 {
        let rot = (self.buffer & 63) as u32;
        (self.buffer.wrapping_mul(MULTIPLE) ^ self.pad).rotate_left(rot)
    }
}

#[cfg(feature = "specialize")]
pub(crate) struct AHasherU64 {
    pub(crate) buffer: u64,
    pub(crate) pad: u64,
}

/// A specialized hasher for only primitives under 64 bits.
#[cfg(feature = "specialize")]
impl Hasher for AHasherU64 {
    #[inline]
    fn finish(&self) -> u64 {
        let rot = (self.pad & 63) as u32;
        self.buffer.rotate_left(rot)
    }

    #[inline]
    fn write(&mut self, _bytes: &[u8]) {
        unreachable!("Specialized hasher was called with a different type of object")
    }

    #[inline]
    fn write_u8(&mut self, i: u8) {
        self.write_u64(i as u64);
    }

    #[inline]
    fn write_u16(&mut self, i: u16) {
        self.write_u64(i as u64);
    }

    #[inline]
    fn write_u32(&mut self, i: u32) {
        self.write_u64(i as u64);
    }

    #[inline]
    fn write_u64(&mut self, i: u64) {
        self.buffer = folded_multiply(i ^ self.buffer, MULTIPLE);
    }

    #[inline]
    fn write_u128(&mut self, _i: u128) {
        unreachable!("Specialized hasher was called with a different type of object")
    }

    #[inline]
    fn write_usize(&mut self, _i: usize) {
        unreachable!("Specialized hasher was called with a different type of object")
    }
}

#[cfg(feature = "specialize")]
pub(crate) struct AHasherFixed(pub AHasher);

/// A specialized hasher for fixed size primitives larger than 64 bits.
#[cfg(feature = "specialize")]
impl Hasher for AHasherFixed {
    #[inline]
    fn finish(&self) -> u64 {
        self.0.short_finish()
    }

    #[inline]
    fn write(&mut self, bytes: &[u8]) {
        self.0.write(bytes)
    }

    #[inline]
    fn write_u8(&mut self, i: u8) {
        self.write_u64(i as u64);
    }

    #[inline]
    fn write_u16(&mut self, i: u16) {
        self.write_u64(i as u64);
    }

    #[inline]
    fn write_u32(&mut self, i: u32) {
        self.write_u64(i as u64);
    }

    #[inline]
    fn write_u64(&mut self, i: u64) {
        self.0.write_u64(i);
    }

    #[inline]
    fn write_u128(&mut self, i: u128) {
        self.0.write_u128(i);
    }

    #[inline]
    fn write_usize(&mut self, i: usize) {
        self.0.write_usize(i);
    }
}

#[cfg(feature = "specialize")]
pub(crate) struct AHasherStr(pub AHasher);

/// A specialized hasher for a single string
/// Note that the other types don't panic because the hash impl for String tacks on an unneeded call. (As does vec)
#[cfg(feature = "specialize")]
impl Hasher for AHasherStr {
    #[inline]
    fn finish(&self) -> u64 {
        self.0.finish()
    }

    #[inline]
    fn write(&mut self, bytes: &[u8]) {
        if bytes.len() > 8 {
            self.0.write(bytes)
        } else {
            let value = read_small(bytes);
            self.0.buffer = folded_multiply(value[0] ^ self.0.buffer,
                                           value[1] ^ self.0.extra_keys[1]);
            self.0.pad = self.0.pad.wrapping_add(bytes.len() as u64);
        }
    }

    #[inline]
    fn write_u8(&mut self, _i: u8) {}

    #[inline]
    fn write_u16(&mut self, _i: u16) {}

    #[inline]
    fn write_u32(&mut self, _i: u32) {}

    #[inline]
    fn write_u64(&mut self, _i: u64) {}

    #[inline]
    fn write_u128(&mut self, _i: u128) {}

    #[inline]
    fn write_usize(&mut self, _i: usize) {}
}

#[cfg(test)]
mod tests {
    use crate::convert::Convert;
    use crate::fallback_hash::*;

    #[test]
    fn test_hash() {
        let mut hasher = AHasher::new_with_keys(0, 0);
        let value: u64 = 1 << 32;
        hasher.update(value);
        let result = hasher.buffer;
        let mut hasher = AHasher::new_with_keys(0, 0);
        let value2: u64 = 1;
        hasher.update(value2);
        let result2 = hasher.buffer;
        let result: [u8; 8] = result.convert();
        let result2: [u8; 8] = result2.convert();
        assert_ne!(hex::encode(result), hex::encode(result2));
    }

    #[test]
    fn test_conversion() {
        let input: &[u8] = "dddddddd".as_bytes();
        let bytes: u64 = as_array!(input, 8).convert();
        assert_eq!(bytes, 0x6464646464646464);
    }
}

use crate::RandomState;
use std::collections::{hash_set, HashSet};
use std::fmt::{self, Debug};
use std::hash::{BuildHasher, Hash};
use std::iter::FromIterator;
use std::ops::{BitAnd, BitOr, BitXor, Deref, DerefMut, Sub};

#[cfg(feature = "serde")]
use serde::{
    de::{Deserialize, Deserializer},
    ser::{Serialize, Serializer},
};

/// A [`HashSet`](std::collections::HashSet) using [`RandomState`](crate::RandomState) to hash the items.
/// (Requires the `std` feature to be enabled.)
#[derive(Clone)]
pub struct AHashSet<T, S = crate::RandomState>(HashSet<T, S>);

impl<T> From<HashSet<T, crate::RandomState>> for AHashSet<T> {
    fn from(item: HashSet<T, crate::RandomState>) -> Self {
        AHashSet(item)
    }
}

impl<T> Into<HashSet<T, crate::RandomState>> for AHashSet<T> {
    fn into(self) -> HashSet<T, crate::RandomState> {
        self.0
    }
}

impl<T> AHashSet<T, RandomState> {
    pub fn new() -> Self {
        AHashSet(HashSet::with_hasher(RandomState::default()))
    }

    pub fn with_capacity(capacity: usize) -> Self {
        AHashSet(HashSet::with_capacity_and_hasher(capacity, RandomState::default()))
    }
}

impl<T, S> AHashSet<T, S>
where
    S: BuildHasher,
{
    pub fn with_hasher(hash_builder: S) -> Self {
        AHashSet(HashSet::with_hasher(hash_builder))
    }

    pub fn with_capacity_and_hasher(capacity: usize, hash_builder: S) -> Self {
        AHashSet(HashSet::with_capacity_and_hasher(capacity, hash_builder))
    }
}

impl<T, S> Deref for AHashSet<T, S> {
    type Target = HashSet<T, S>;
    fn deref(&self) -> &Self::Target {
        &self.0
    }
}

impl<T, S> DerefMut for AHashSet<T, S> {
    fn deref_mut(&mut self) -> &mut Self::Target {
        &mut self.0
    }
}

impl<T, S> PartialEq for AHashSet<T, S>
where
    T: Eq + Hash,
    S: BuildHasher,
{
    fn eq(&self, other: &AHashSet<T, S>) -> bool {
        self.0.eq(&other.0)
    }
}

impl<T, S> Eq for AHashSet<T, S>
where
    T: Eq + Hash,
    S: BuildHasher,
{
}

impl<T, S> BitOr<&AHashSet<T, S>> for &AHashSet<T, S>
where
    T: Eq + Hash + Clone,
    S: BuildHasher + Default,
{
    type Output = AHashSet<T, S>;

    /// Returns the union of `self` and `rhs` as a new `AHashSet<T, S>`.
    ///
    /// # Examples
    ///
    /// ```
    /// use ahash::AHashSet;
    ///
    /// let a: AHashSet<_> = vec![1, 2, 3].into_iter().collect();
    /// let b: AHashSet<_> = vec![3, 4, 5].into_iter().collect();
    ///
    /// let set = &a | &b;
    ///
    /// let mut i = 0;
    /// let expected = [1, 2, 3, 4, 5];
    /// for x in &set {
    ///     assert!(expected.contains(x));
    ///     i += 1;
    /// }
    /// assert_eq!(i, expected.len());
    /// ```
    fn bitor(self, rhs: &AHashSet<T, S>) -> AHashSet<T, S> {
        AHashSet(self.0.bitor(&rhs.0))
    }
}

impl<T, S> BitAnd<&AHashSet<T, S>> for &AHashSet<T, S>
where
    T: Eq + Hash + Clone,
    S: BuildHasher + Default,
{
    type Output = AHashSet<T, S>;

    /// Returns the intersection of `self` and `rhs` as a new `AHashSet<T, S>`.
    ///
    /// # Examples
    ///
    /// ```
    /// use ahash::AHashSet;
    ///
    /// let a: AHashSet<_> = vec![1, 2, 3].into_iter().collect();
    /// let b: AHashSet<_> = vec![2, 3, 4].into_iter().collect();
    ///
    /// let set = &a & &b;
    ///
    /// let mut i = 0;
    /// let expected = [2, 3];
    /// for x in &set {
    ///     assert!(expected.contains(x));
    ///     i += 1;
    /// }
    /// assert_eq!(i, expected.len());
    /// ```
    fn bitand(self, rhs: &AHashSet<T, S>) -> AHashSet<T, S> {
        AHashSet(self.0.bitand(&rhs.0))
    }
}

impl<T, S> BitXor<&AHashSet<T, S>> for &AHashSet<T, S>
where
    T: Eq + Hash + Clone,
    S: BuildHasher + Default,
{
    type Output = AHashSet<T, S>;

    /// Returns the symmetric difference of `self` and `rhs` as a new `AHashSet<T, S>`.
    ///
    /// # Examples
    ///
    /// ```
    /// use ahash::AHashSet;
    ///
    /// let a: AHashSet<_> = vec![1, 2, 3].into_iter().collect();
    /// let b: AHashSet<_> = vec![3, 4, 5].into_iter().collect();
    ///
    /// let set = &a ^ &b;
    ///
    /// let mut i = 0;
    /// let expected = [1, 2, 4, 5];
    /// for x in &set {
    ///     assert!(expected.contains(x));
    ///     i += 1;
    /// }
    /// assert_eq!(i, expected.len());
    /// ```
    fn bitxor(self, rhs: &AHashSet<T, S>) -> AHashSet<T, S> {
        AHashSet(self.0.bitxor(&rhs.0))
    }
}

impl<T, S> Sub<&AHashSet<T, S>> for &AHashSet<T, S>
where
    T: Eq + Hash + Clone,
    S: BuildHasher + Default,
{
    type Output = AHashSet<T, S>;

    /// Returns the difference of `self` and `rhs` as a new `AHashSet<T, S>`.
    ///
    /// # Examples
    ///
    /// ```
    /// use ahash::AHashSet;
    ///
    /// let a: AHashSet<_> = vec![1, 2, 3].into_iter().collect();
    /// let b: AHashSet<_> = vec![3, 4, 5].into_iter().collect();
    ///
    /// let set = &a - &b;
    ///
    /// let mut i = 0;
    /// let expected = [1, 2];
    /// for x in &set {
    ///     assert!(expected.contains(x));
    ///     i += 1;
    /// }
    /// assert_eq!(i, expected.len());
    /// ```
    fn sub(self, rhs: &AHashSet<T, S>) -> AHashSet<T, S> {
        AHashSet(self.0.sub(&rhs.0))
    }
}

impl<T, S> Debug for AHashSet<T, S>
where
    T: Debug,
    S: BuildHasher,
{
    fn fmt(&self, fmt: &mut fmt::Formatter<'_>) -> fmt::Result {
        self.0.fmt(fmt)
    }
}

impl<T, S> FromIterator<T> for AHashSet<T, S>
where
    T: Eq + Hash,
    S: BuildHasher + Default,
{
    #[inline]
    fn from_iter<I: IntoIterator<Item = T>>(iter: I) -> AHashSet<T, S> {
        AHashSet(HashSet::from_iter(iter))
    }
}

impl<'a, T, S> IntoIterator for &'a AHashSet<T, S> {
    type Item = &'a T;
    type IntoIter = hash_set::Iter<'a, T>;
    fn into_iter(self) -> Self::IntoIter {
        (&self.0).iter()
    }
}

impl<T, S> IntoIterator for AHashSet<T, S> {
    type Item = T;
    type IntoIter = hash_set::IntoIter<T>;
    fn into_iter(self) -> Self::IntoIter {
        self.0.into_iter()
    }
}

impl<T, S> Extend<T> for AHashSet<T, S>
where
    T: Eq + Hash,
    S: BuildHasher,
{
    #[inline]
    fn extend<I: IntoIterator<Item = T>>(&mut self, iter: I) {
        self.0.extend(iter)
    }
}

impl<'a, T, S> Extend<&'a T> for AHashSet<T, S>
where
    T: 'a + Eq + Hash + Copy,
    S: BuildHasher,
{
    #[inline]
    fn extend<I: IntoIterator<Item = &'a T>>(&mut self, iter: I) {
        self.0.extend(iter)
    }
}

impl<T> Default for AHashSet<T, RandomState> {
    /// Creates an empty `AHashSet<T, S>` with the `Default` value for the hasher.
    #[inline]
    fn default() -> AHashSet<T, RandomState> {
        AHashSet(HashSet::default())
    }
}

#[cfg(feature = "serde")]
impl<T> Serialize for AHashSet<T>
where
    T: Serialize + Eq + Hash,
{
    fn serialize<S: Serializer>(&self, serializer: S) -> Result<S::Ok, S::Error> {
        self.deref().serialize(serializer)
    }
}

#[cfg(feature = "serde")]
impl<'de, T> Deserialize<'de> for AHashSet<T>
where
    T: Deserialize<'de> + Eq + Hash,
{
    fn deserialize<D: Deserializer<'de>>(deserializer: D) -> Result<Self, D::Error> {
        let hash_set = HashSet::deserialize(deserializer);
        hash_set.map(|hash_set| Self(hash_set))
    }
}

#[cfg(all(test, feature = "serde"))]
mod test {
    use super::*;

    #[test]
    fn test_serde() {
        let mut set = AHashSet::new();
        set.insert("for".to_string());
        set.insert("bar".to_string());
        let serialization = serde_json::to_string(&set).unwrap();
        let deserialization: AHashSet<String> = serde_json::from_str(&serialization).unwrap();
        assert_eq!(deserialization, set);
    }
}

#[cfg(all(feature = "runtime-rng", not(all(feature = "compile-time-rng", test))))]
use crate::convert::Convert;
#[cfg(feature = "specialize")]
use crate::BuildHasherExt;

#[cfg(any(
    all(any(target_arch = "x86", target_arch = "x86_64"), target_feature = "aes", not(miri)),
    all(any(target_arch = "arm", target_arch = "aarch64"), target_feature = "crypto", not(miri), feature = "stdsimd")
))]
pub use crate::aes_hash::*;

#[cfg(not(any(
    all(any(target_arch = "x86", target_arch = "x86_64"), target_feature = "aes", not(miri)),
    all(any(target_arch = "arm", target_arch = "aarch64"), target_feature = "crypto", not(miri), feature = "stdsimd")
)))]
pub use crate::fallback_hash::*;

#[cfg(all(feature = "compile-time-rng", any(not(feature = "runtime-rng"), test)))]
use const_random::const_random;
use core::any::{Any, TypeId};
use core::fmt;
use core::hash::BuildHasher;
#[cfg(feature = "specialize")]
use core::hash::Hash;
use core::hash::Hasher;

#[cfg(not(feature = "std"))]
extern crate alloc;
#[cfg(feature = "std")]
extern crate std as alloc;

#[cfg(feature = "atomic-polyfill")]
use atomic_polyfill as atomic;
#[cfg(not(feature = "atomic-polyfill"))]
use core::sync::atomic;

use alloc::boxed::Box;
use atomic::{AtomicUsize, Ordering};
#[cfg(not(all(target_arch = "arm", target_os = "none")))]
use once_cell::race::OnceBox;

#[cfg(any(
    all(any(target_arch = "x86", target_arch = "x86_64"), target_feature = "aes", not(miri)),
    all(any(target_arch = "arm", target_arch = "aarch64"), target_feature = "crypto", not(miri), feature = "stdsimd")
))]
use crate::aes_hash::*;
#[cfg(not(any(
    all(any(target_arch = "x86", target_arch = "x86_64"), target_feature = "aes", not(miri)),
    all(any(target_arch = "arm", target_arch = "aarch64"), target_feature = "crypto", not(miri), feature = "stdsimd")
)))]
use crate::fallback_hash::*;

#[cfg(not(all(target_arch = "arm", target_os = "none")))]
static RAND_SOURCE: OnceBox<Box<dyn RandomSource + Send + Sync>> = OnceBox::new();

/// A supplier of Randomness used for different hashers.
/// See [RandomState.set_random_source].
pub trait RandomSource {

    fn get_fixed_seeds(&self) -> &'static [[u64; 4]; 2];

    fn gen_hasher_seed(&self) -> usize;

}

pub(crate) const PI: [u64; 4] = [
    0x243f_6a88_85a3_08d3,
    0x1319_8a2e_0370_7344,
    0xa409_3822_299f_31d0,
    0x082e_fa98_ec4e_6c89,
];

pub(crate) const PI2: [u64; 4] = [
    0x4528_21e6_38d0_1377,
    0xbe54_66cf_34e9_0c6c,
    0xc0ac_29b7_c97c_50dd,
    0x3f84_d5b5_b547_0917,
];

struct DefaultRandomSource {
    counter: AtomicUsize,
}

impl DefaultRandomSource {
    fn new() -> DefaultRandomSource {
        DefaultRandomSource {
            counter: AtomicUsize::new(&PI as *const _ as usize),
        }
    }

    const fn default() -> DefaultRandomSource {
        DefaultRandomSource {
            counter: AtomicUsize::new(PI[3] as usize),
        }
    }
}

impl RandomSource for DefaultRandomSource {

    #[cfg(all(feature = "runtime-rng", not(all(feature = "compile-time-rng", test))))]
    fn get_fixed_seeds(&self) -> &'static [[u64; 4]; 2] {
        static SEEDS: OnceBox<[[u64; 4]; 2]> = OnceBox::new();

        SEEDS.get_or_init(|| {
            let mut result: [u8; 64] = [0; 64];
            getrandom::getrandom(&mut result).expect("getrandom::getrandom() failed.");
            Box::new(result.convert())
        })
    }

    #[cfg(all(feature = "compile-time-rng", any(not(feature = "runtime-rng"), test)))]
    fn get_fixed_seeds(&self) -> &'static [[u64; 4]; 2] {
        const RAND: [[u64; 4]; 2] = [
            [
                const_random!(u64),
                const_random!(u64),
                const_random!(u64),
                const_random!(u64),
            ], [
                const_random!(u64),
                const_random!(u64),
                const_random!(u64),
                const_random!(u64),
            ]
        ];
        &RAND
    }

    #[cfg(all(not(feature = "runtime-rng"), not(feature = "compile-time-rng")))]
    fn get_fixed_seeds(&self) -> &'static [[u64; 4]; 2] {
        &[PI, PI2]
    }

    #[cfg(not(all(target_arch = "arm", target_os = "none")))]
    fn gen_hasher_seed(&self) -> usize {
        let stack = self as *const _ as usize;
        self.counter.fetch_add(stack, Ordering::Relaxed)
    }

    #[cfg(all(target_arch = "arm", target_os = "none"))]
    fn gen_hasher_seed(&self) -> usize {
        let stack = self as *const _ as usize;
        let previous = self.counter.load(Ordering::Relaxed);
        let new = previous.wrapping_add(stack);
        self.counter.store(new, Ordering::Relaxed);
        new
    }
}

/// Provides a [Hasher] factory. This is typically used (e.g. by [HashMap]) to create
/// [AHasher]s in order to hash the keys of the map. See `build_hasher` below.
///
/// [build_hasher]: ahash::
/// [Hasher]: std::hash::Hasher
/// [BuildHasher]: std::hash::BuildHasher
/// [HashMap]: std::collections::HashMap
#[derive(Clone)]
pub struct RandomState {
    pub(crate) k0: u64,
    pub(crate) k1: u64,
    pub(crate) k2: u64,
    pub(crate) k3: u64,
}

impl fmt::Debug for RandomState {
    fn fmt(&self, f: &mut fmt::Formatter<'_>) -> fmt::Result {
        f.pad("RandomState { .. }")
    }
}

impl RandomState {

    /// Provides an optional way to manually supply a source of randomness for Hasher keys.
    ///
    /// The provided [RandomSource] will be used to be used as a source of randomness by [RandomState] to generate new states.
    /// If this method is not invoked the standard source of randomness is used as described in the Readme.
    ///
    /// The source of randomness can only be set once, and must be set before the first RandomState is created.
    /// If the source has already been specified `Err` is returned with a `bool` indicating if the set failed because
    /// method was previously invoked (true) or if the default source is already being used (false).
    #[cfg(not(all(target_arch = "arm", target_os = "none")))]
    pub fn set_random_source(source: impl RandomSource + Send + Sync + 'static) -> Result<(), bool> {
        RAND_SOURCE.set(Box::new(Box::new(source))).map_err(|s| s.as_ref().type_id() != TypeId::of::<&DefaultRandomSource>())
    }

    #[inline]
    #[cfg(not(all(target_arch = "arm", target_os = "none")))]
    fn get_src() -> &'static dyn RandomSource {
        RAND_SOURCE.get_or_init(|| Box::new(Box::new(DefaultRandomSource::new()))).as_ref()
    }

    #[inline]
    #[cfg(all(target_arch = "arm", target_os = "none"))]
    fn get_src() -> &'static dyn RandomSource {
        static RAND_SOURCE: DefaultRandomSource = DefaultRandomSource::default();
        &RAND_SOURCE
    }

    /// Use randomly generated keys
    #[inline]
    pub fn new() -> RandomState {
        let src = Self::get_src();
        let fixed = src.get_fixed_seeds();
        Self::from_keys(&fixed[0], &fixed[1], src.gen_hasher_seed())
    }

    /// Allows for supplying seeds, but each time it is called the resulting state will be different.
    /// This is done using a static counter, so it can safely be used with a fixed keys.
    #[inline]
    pub fn generate_with(k0: u64, k1: u64, k2: u64, k3: u64) -> RandomState {
        let src = Self::get_src();
        let fixed = src.get_fixed_seeds();
        RandomState::from_keys(&fixed[0], &[k0, k1, k2, k3], src.gen_hasher_seed())
    }

    fn from_keys(a: &[u64; 4], b: &[u64; 4], c: usize) -> RandomState {
        let &[k0, k1, k2, k3] = a;
        let mut hasher = AHasher::from_random_state(&RandomState { k0, k1, k2, k3 });
        hasher.write_usize(c);
        let mix = |k: u64| {
            let mut h = hasher.clone();
            h.write_u64(k);
            h.finish()
        };
        RandomState {
            k0: mix(b[0]),
            k1: mix(b[1]),
            k2: mix(b[2]),
            k3: mix(b[3]),
        }
    }

    /// Internal. Used by Default.
    #[inline]
    pub(crate) fn with_fixed_keys() -> RandomState {
        let [k0, k1, k2, k3] = Self::get_src().get_fixed_seeds()[0];
        RandomState { k0, k1, k2, k3 }
    }

    /// Allows for explicitly setting a seed to used.
    ///
    /// Note: This method does not require the provided seed to be strong.
    #[inline]
    pub fn with_seed(key: usize) -> RandomState {
        let fixed = Self::get_src().get_fixed_seeds();
        RandomState::from_keys(&fixed[0], &fixed[1], key)
    }

    /// Allows for explicitly setting the seeds to used.
    ///
    /// Note: This method is robust against 0s being passed for one or more of the parameters
    /// or the same value being passed for more than one parameter.
    #[inline]
    pub const fn with_seeds(k0: u64, k1: u64, k2: u64, k3: u64) -> RandomState {
        RandomState { k0: k0 ^ PI2[0], k1: k1 ^ PI2[1], k2: k2 ^ PI2[2], k3: k3 ^ PI2[3] }
    }
}

impl Default for RandomState {
    #[inline]
    fn default() -> Self {
        Self::new()
    }
}

impl BuildHasher for RandomState {
    type Hasher = AHasher;

    /// Constructs a new [AHasher] with keys based on this [RandomState] object.
    /// This means that two different [RandomState]s will will generate
    /// [AHasher]s that will return different hashcodes, but [Hasher]s created from the same [BuildHasher]
    /// will generate the same hashes for the same input data.
    ///
    /// # Examples
    ///
    /// ```
    /// use ahash::{AHasher, RandomState};
    /// use std::hash::{Hasher, BuildHasher};
    ///
    /// let build_hasher = RandomState::new();
    /// let mut hasher_1 = build_hasher.build_hasher();
    /// let mut hasher_2 = build_hasher.build_hasher();
    ///
    /// hasher_1.write_u32(1234);
    /// hasher_2.write_u32(1234);
    ///
    /// assert_eq!(hasher_1.finish(), hasher_2.finish());
    ///
    /// let other_build_hasher = RandomState::new();
    /// let mut different_hasher = other_build_hasher.build_hasher();
    /// different_hasher.write_u32(1234);
    /// assert_ne!(different_hasher.finish(), hasher_1.finish());
    /// ```
    /// [Hasher]: std::hash::Hasher
    /// [BuildHasher]: std::hash::BuildHasher
    /// [HashMap]: std::collections::HashMap
    #[inline]
    fn build_hasher(&self) -> AHasher {
        AHasher::from_random_state(self)
    }
}

#[cfg(feature = "specialize")]
impl BuildHasherExt for RandomState {
    #[inline]
    fn hash_as_u64<T: Hash + ?Sized>(&self, value: &T) -> u64 {
        let mut hasher = AHasherU64 {
            buffer: self.k0,
            pad: self.k1,
        };
        value.hash(&mut hasher);
        hasher.finish()
    }

    #[inline]
    fn hash_as_fixed_length<T: Hash + ?Sized>(&self, value: &T) -> u64 {
        let mut hasher = AHasherFixed(self.build_hasher());
        value.hash(&mut hasher);
        hasher.finish()
    }

    #[inline]
    fn hash_as_str<T: Hash + ?Sized>(&self, value: &T) -> u64 {
        let mut hasher = AHasherStr(self.build_hasher());
        value.hash(&mut hasher);
        hasher.finish()
    }
}

#[cfg(test)]
mod test {
    use super::*;

    #[test]
    fn test_unique() {
        let a = RandomState::new();
        let b = RandomState::new();
        assert_ne!(a.build_hasher().finish(), b.build_hasher().finish());
    }

    #[cfg(all(feature = "runtime-rng", not(all(feature = "compile-time-rng", test))))]
    #[test]
    fn test_not_pi() {
        assert_ne!(PI, RandomState::get_src().get_fixed_seeds()[0]);
    }

    #[cfg(all(feature = "compile-time-rng", any(not(feature = "runtime-rng"), test)))]
    #[test]
    fn test_not_pi_const() {
        assert_ne!(PI, RandomState::get_src().get_fixed_seeds()[0]);
    }

    #[cfg(all(not(feature = "runtime-rng"), not(feature = "compile-time-rng")))]
    #[test]
    fn test_pi() {
        assert_eq!(PI, RandomState::get_src().get_fixed_seeds()[0]);
    }

    #[test]
    fn test_with_seeds_const() {
        const _CONST_RANDOM_STATE: RandomState = RandomState::with_seeds(17, 19, 21, 23);
    }
}

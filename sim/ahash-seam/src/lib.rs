#![allow(warnings)]
//! AHash is a hashing algorithm is intended to be a high performance, (hardware specific), keyed hash function.
//! This can be seen as a DOS resistant alternative to `FxHash`, or a fast equivalent to `SipHash`.
//! It provides a high speed hash algorithm, but where the result is not predictable without knowing a Key.
//! This allows it to be used in a `HashMap` without allowing for the possibility that an malicious user can
//! induce a collision.
//!
//! # How aHash works
//!
//! aHash uses the hardware AES instruction on x86 processors to provide a keyed hash function.
//! aHash is not a cryptographically secure hash.
//!
//! # Example
//! ```
//! use ahash::{AHasher, RandomState};
//! use std::collections::HashMap;
//!
//! let mut map: HashMap<i32, i32, RandomState> = HashMap::default();
//! map.insert(12, 34);
//! ```
//! For convinence wrappers called `AHashMap` and `AHashSet` are also provided.
//! These to the same thing with slightly less typing.
//! ```ignore
//! use ahash::AHashMap;
//!
//! let mut map: AHashMap<i32, i32> = AHashMap::with_capacity(4);
//! map.insert(12, 34);
//! map.insert(56, 78);
//! ```
#![deny(clippy::correctness, clippy::complexity, clippy::perf)]
#![allow(clippy::pedantic, clippy::cast_lossless, clippy::unreadable_literal)]
#![cfg_attr(all(not(test), not(feature = "std")), no_std)]
#![cfg_attr(feature = "specialize", feature(min_specialization))]
#![cfg_attr(feature = "stdsimd", feature(stdsimd))]

#[macro_use]
mod convert;

#[cfg(any(
    all(any(target_arch = "x86", target_arch = "x86_64"), target_feature = "aes", not(miri)),
    all(any(target_arch = "arm", target_arch = "aarch64"), target_feature = "crypto", not(miri), feature = "stdsimd")
))]
mod aes_hash;
mod fallback_hash;
#[cfg(test)]
mod hash_quality_test;

#[cfg(feature = "std")]
mod hash_map;
#[cfg(feature = "std")]
mod hash_set;
mod operations;
mod random_state;
mod specialize;

#[cfg(any(
    all(any(target_arch = "x86", target_arch = "x86_64"), target_feature = "aes", not(miri)),
    all(any(target_arch = "arm", target_arch = "aarch64"), target_feature = "crypto", not(miri), feature = "stdsimd")
))]
pub use crate::aes_hash::AHasher;

#[cfg(not(any(
    all(any(target_arch = "x86", target_arch = "x86_64"), target_feature = "aes", not(miri)),
    all(any(target_arch = "arm", target_arch = "aarch64"), target_feature = "crypto", not(miri), feature = "stdsimd")
)))]
pub use crate::fallback_hash::AHasher;
pub use crate::random_state::RandomState;
// verif hash-seed seam (S2): the only change to ahash 0.7.8 -- export the trait that
// `RandomState::set_random_source` already accepts, so a simulator can implement it.
pub use crate::random_state::RandomSource;

pub use crate::specialize::CallHasher;

#[cfg(feature = "std")]
pub use crate::hash_map::AHashMap;
#[cfg(feature = "std")]
pub use crate::hash_set::AHashSet;
use core::hash::BuildHasher;
use core::hash::Hash;
use core::hash::Hasher;

/// Provides a default [Hasher] with fixed keys.
/// This is typically used in conjunction with [BuildHasherDefault] to create
/// [AHasher]s in order to hash the keys of the map.
///
/// Generally it is preferable to use [RandomState] instead, so that different
/// hashmaps will have different keys. However if fixed keys are desireable this
/// may be used instead.
///
/// # Example
/// ```
/// use std::hash::BuildHasherDefault;
/// use ahash::{AHasher, RandomState};
/// use std::collections::HashMap;
///
/// let mut map: HashMap<i32, i32, BuildHasherDefault<AHasher>> = HashMap::default();
/// map.insert(12, 34);
/// ```
///
/// [BuildHasherDefault]: std::hash::BuildHasherDefault
/// [Hasher]: std::hash::Hasher
/// [HashMap]: std::collections::HashMap
impl Default for AHasher {
    /// Constructs a new [AHasher] with fixed keys.
    /// If `std` is enabled these will be generated upon first invocation.
    /// Otherwise if the `compile-time-rng`feature is enabled these will be generated at compile time.
    /// If neither of these features are available, hardcoded constants will be used.
    ///
    /// Because the values are fixed, different hashers will all hash elements the same way.
    /// This could make hash values predictable, if DOS attacks are a concern. If this behaviour is
    /// not required, it may be preferable to use [RandomState] instead.
    ///
    /// # Examples
    ///
    /// ```
    /// use ahash::AHasher;
    /// use std::hash::Hasher;
    ///
    /// let mut hasher_1 = AHasher::default();
    /// let mut hasher_2 = AHasher::default();
    ///
    /// hasher_1.write_u32(1234);
    /// hasher_2.write_u32(1234);
    ///
    /// assert_eq!(hasher_1.finish(), hasher_2.finish());
    /// ```
    #[inline]
    fn default() -> AHasher {
        RandomState::with_fixed_keys().build_hasher()
    }
}

/// Used for specialization. (Sealed)
pub(crate) trait BuildHasherExt: BuildHasher {
    #[doc(hidden)]
    fn hash_as_u64<T: Hash + ?Sized>(&self, value: &T) -> u64;

    #[doc(hidden)]
    fn hash_as_fixed_length<T: Hash + ?Sized>(&self, value: &T) -> u64;

    #[doc(hidden)]
    fn hash_as_str<T: Hash + ?Sized>(&self, value: &T) -> u64;
}

impl<B: BuildHasher> BuildHasherExt for B {
    #[inline]
    #[cfg(feature = "specialize")]
    default fn hash_as_u64<T: Hash + ?Sized>(&self, value: &T) -> u64 {
        let mut hasher = self.build_hasher();
        value.hash(&mut hasher);
        hasher.finish()
    }
    #[inline]
    #[cfg(not(feature = "specialize"))]
    fn hash_as_u64<T: Hash + ?Sized>(&self, value: &T) -> u64 {
        let mut hasher = self.build_hasher();
        value.hash(&mut hasher);
        hasher.finish()
    }
    #[inline]
    #[cfg(feature = "specialize")]
    default fn hash_as_fixed_length<T: Hash + ?Sized>(&self, value: &T) -> u64 {
        let mut hasher = self.build_hasher();
        value.hash(&mut hasher);
        hasher.finish()
    }
    #[inline]
    #[cfg(not(feature = "specialize"))]
    fn hash_as_fixed_length<T: Hash + ?Sized>(&self, value: &T) -> u64 {
        let mut hasher = self.build_hasher();
        value.hash(&mut hasher);
        hasher.finish()
    }
    #[inline]
    #[cfg(feature = "specialize")]
    default fn hash_as_str<T: Hash + ?Sized>(&self, value: &T) -> u64 {
        let mut hasher = self.build_hasher();
        value.hash(&mut hasher);
        hasher.finish()
    }
    #[inline]
    #[cfg(not(feature = "specialize"))]
    fn hash_as_str<T: Hash + ?Sized>(&self, value: &T) -> u64 {
        let mut hasher = self.build_hasher();
        value.hash(&mut hasher);
        hasher.finish()
    }
}

// #[inline(never)]
// #[doc(hidden)]
// pub fn hash_test(input: &[u8]) -> u64 {
//     let a = RandomState::with_seeds(11, 22, 33, 44);
//     <[u8]>::get_hash(input, &a)
// }

#[cfg(feature = "std")]
#[cfg(test)]
mod test {
    use crate::convert::Convert;
    use crate::*;
    use std::collections::HashMap;
    use std::hash::Hash;

    #[test]
    fn test_default_builder() {
        use core::hash::BuildHasherDefault;

        let mut map = HashMap::<u32, u64, BuildHasherDefault<AHasher>>::default();
        map.insert(1, 3);
    }

    #[test]
    fn test_builder() {
        let mut map = HashMap::<u32, u64, RandomState>::default();
        map.insert(1, 3);
    }

    #[test]
    fn test_conversion() {
        let input: &[u8] = b"dddddddd";
        let bytes: u64 = as_array!(input, 8).convert();
        assert_eq!(bytes, 0x6464646464646464);
    }


    #[test]
    fn test_non_zero() {
        let mut hasher1 = AHasher::new_with_keys(0, 0);
        let mut hasher2 = AHasher::new_with_keys(0, 0);
        "foo".hash(&mut hasher1);
        "bar".hash(&mut hasher2);
        assert_ne!(hasher1.finish(), 0);
        assert_ne!(hasher2.finish(), 0);
        assert_ne!(hasher1.finish(), hasher2.finish());

        let mut hasher1 = AHasher::new_with_keys(0, 0);
        let mut hasher2 = AHasher::new_with_keys(0, 0);
        3_u64.hash(&mut hasher1);
        4_u64.hash(&mut hasher2);
        assert_ne!(hasher1.finish(), 0);
        assert_ne!(hasher2.finish(), 0);
        assert_ne!(hasher1.finish(), hasher2.finish());
    }

    #[test]
    fn test_non_zero_specialized() {
        let hasher_build = RandomState::with_seeds(0,0,0,0);

        let h1 = str::get_hash("foo", &hasher_build);
        let h2 = str::get_hash("bar", &hasher_build);
        assert_ne!(h1, 0);
        assert_ne!(h2, 0);
        assert_ne!(h1, h2);

        let h1 = u64::get_hash(&3_u64, &hasher_build);
        let h2 = u64::get_hash(&4_u64, &hasher_build);
        assert_ne!(h1, 0);
        assert_ne!(h2, 0);
        assert_ne!(h1, h2);
    }

    #[test]
    fn test_ahasher_construction() {
        let _ = AHasher::new_with_keys(1234, 5678);
    }
}

pub(crate) trait Convert<To> {
    fn convert(self) -> To;
}

macro_rules! convert {
    ($a:ty, $b:ty) => {
        impl Convert<$b> for $a {
            #[inline(always)]
            fn convert(self) -> $b {
                unsafe {
                    core::mem::transmute::<$a, $b>(self)
                }
            }
        }
        impl Convert<$a> for $b {
            #[inline(always)]
            fn convert(self) -> $a {
                unsafe {
                    core::mem::transmute::<$b, $a>(self)
                }
            }
        }
    };
}

convert!([u128; 4], [u64; 8]);
convert!([u128; 4], [u32; 16]);
convert!([u128; 4], [u16; 32]);
convert!([u128; 4], [u8; 64]);
convert!([u128; 2], [u64; 4]);
convert!([u128; 2], [u32; 8]);
convert!([u128; 2], [u16; 16]);
convert!([u128; 2], [u8; 32]);
convert!(u128, [u64; 2]);
convert!(u128, [u32; 4]);
convert!(u128, [u16; 8]);
convert!(u128, [u8; 16]);
convert!([u64; 8], [u32; 16]);
convert!([u64; 8], [u16; 32]);
convert!([u64; 8], [u8; 64]);
convert!([u64; 4], [u32; 8]);
convert!([u64; 4], [u16; 16]);
convert!([u64; 4], [u8; 32]);
convert!([u64; 2], [u32; 4]);
convert!([u64; 2], [u16; 8]);
convert!([u64; 2], [u8; 16]);
convert!([u32; 4], [u16; 8]);
convert!([u32; 4], [u8; 16]);
convert!([u16; 8], [u8; 16]);
convert!(u64, [u32; 2]);
convert!(u64, [u16; 4]);
convert!(u64, [u8; 8]);
convert!([u32; 2], [u16; 4]);
convert!([u32; 2], [u8; 8]);
convert!(u32, [u16; 2]);
convert!(u32, [u8; 4]);
convert!([u16; 2], [u8; 4]);
convert!(u16, [u8; 2]);
convert!([[u64; 4]; 2], [u8; 64]);

convert!([f64; 2], [u8; 16]);
convert!([f32; 4], [u8; 16]);
convert!(f64, [u8; 8]);
convert!([f32; 2], [u8; 8]);
convert!(f32, [u8; 4]);

macro_rules! as_array {
    ($input:expr, $len:expr) => {{
        {
            #[inline(always)]
            fn as_array<T>(slice: &[T]) -> &[T; $len] {
                assert_eq!(slice.len(), $len);
                unsafe { &*(slice.as_ptr() as *const [_; $len]) }
            }
            as_array($input)
        }
    }};
}

pub(crate) trait ReadFromSlice {
    fn read_u16(&self) -> (u16, &[u8]);
    fn read_u32(&self) -> (u32, &[u8]);
    fn read_u64(&self) -> (u64, &[u8]);
    fn read_u128(&self) -> (u128, &[u8]);
    fn read_u128x2(&self) -> ([u128; 2], &[u8]);
    fn read_u128x4(&self) -> ([u128; 4], &[u8]);
    fn read_last_u16(&self) -> u16;
    fn read_last_u32(&self) -> u32;
    fn read_last_u64(&self) -> u64;
    fn read_last_u128(&self) -> u128;
    fn read_last_u128x2(&self) -> [u128; 2];
    fn read_last_u128x4(&self) -> [u128; 4];
}

impl ReadFromSlice for [u8] {
    #[inline(always)]
    fn read_u16(&self) -> (u16, &[u8]) {
        let (value, rest) = self.split_at(2);
        (as_array!(value, 2).convert(), rest)
    }

    #[inline(always)]
    fn read_u32(&self) -> (u32, &[u8]) {
        let (value, rest) = self.split_at(4);
        (as_array!(value, 4).convert(), rest)
    }

    #[inline(always)]
    fn read_u64(&self) -> (u64, &[u8]) {
        let (value, rest) = self.split_at(8);
        (as_array!(value, 8).convert(), rest)
    }

    #[inline(always)]
    fn read_u128(&self) -> (u128, &[u8]) {
        let (value, rest) = self.split_at(16);
        (as_array!(value, 16).convert(), rest)
    }

    #[inline(always)]
    fn read_u128x2(&self) -> ([u128; 2], &[u8]) {
        let (value, rest) = self.split_at(32);
        (as_array!(value, 32).convert(), rest)
    }

    #[inline(always)]
    fn read_u128x4(&self) -> ([u128; 4], &[u8]) {
        let (value, rest) = self.split_at(64);
        (as_array!(value, 64).convert(), rest)
    }

    #[inline(always)]
    fn read_last_u16(&self) -> u16 {
        let (_, value) = self.split_at(self.len() - 2);
        as_array!(value, 2).convert()
    }

    #[inline(always)]
    fn read_last_u32(&self) -> u32 {
        let (_, value) = self.split_at(self.len() - 4);
        as_array!(value, 4).convert()
    }

    #[inline(always)]
    fn read_last_u64(&self) -> u64 {
        let (_, value) = self.split_at(self.len() - 8);
        as_array!(value, 8).convert()
    }

    #[inline(always)]
    fn read_last_u128(&self) -> u128 {
        let (_, value) = self.split_at(self.len() - 16);
        as_array!(value, 16).convert()
    }

    #[inline(always)]
    fn read_last_u128x2(&self) -> [u128; 2] {
        let (_, value) = self.split_at(self.len() - 32);
        as_array!(value, 32).convert()
    }

    #[inline(always)]
    fn read_last_u128x4(&self) -> [u128; 4] {
        let (_, value) = self.split_at(self.len() - 64);
        as_array!(value, 64).convert()
    }
}

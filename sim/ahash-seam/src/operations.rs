use crate::convert::*;

/// This is a constant with a lot of special properties found by automated search.
/// See the unit tests below. (Below are alternative values)
#[cfg(all(target_feature = "ssse3", not(miri)))]
const SHUFFLE_MASK: u128 = 0x020a0700_0c01030e_050f0d08_06090b04_u128;
//const SHUFFLE_MASK: u128 = 0x000d0702_0a040301_05080f0c_0e0b0609_u128;
//const SHUFFLE_MASK: u128 = 0x040A0700_030E0106_0D050F08_020B0C09_u128;

#[inline(always)]
pub(crate) const fn folded_multiply(s: u64, by: u64) -> u64 {
    let result = (s as u128).wrapping_mul(by as u128);
    ((result & 0xffff_ffff_ffff_ffff) as u64) ^ ((result >> 64) as u64)
}


/// Given a small (less than 8 byte slice) returns the same data stored in two u32s.
/// (order of and non-duplication of bytes is NOT guaranteed)
#[inline(always)]
pub(crate) fn read_small(data: &[u8]) -> [u64; 2] {
    debug_assert!(data.len() <= 8);
    if data.len() >= 2 {
        if data.len() >= 4 {
            //len 4-8
            [data.read_u32().0 as u64, data.read_last_u32() as u64]
        } else {
            //len 2-3
            [data.read_u16().0 as u64, data[data.len() - 1] as u64]
        }
    } else {
        if data.len() > 0 {
            [data[0] as u64, data[0] as u64]
        } else {
            [0, 0]
        }
    }
}

#[inline(always)]
pub(crate) fn shuffle(a: u128) -> u128 {
    #[cfg(all(target_feature = "ssse3", not(miri)))]
    {
        #[cfg(target_arch = "x86")]
        use core::arch::x86::*;
        #[cfg(target_arch = "x86_64")]
        use core::arch::x86_64::*;
        use core::mem::transmute;
        unsafe { transmute(_mm_shuffle_epi8(transmute(a), transmute(SHUFFLE_MASK))) }
    }
    #[cfg(not(all(target_feature = "ssse3", not(miri))))]
    {
        a.swap_bytes()
    }
}

#[allow(unused)] //not used by fallback
#[inline(always)]
pub(crate) fn add_and_shuffle(a: u128, b: u128) -> u128 {
    let sum = add_by_64s(a.convert(), b.convert());
    shuffle(sum.convert())
}

#[allow(unused)] //not used by fallbac
#[inline(always)]
pub(crate) fn shuffle_and_add(base: u128, to_add: u128) -> u128 {
    let shuffled: [u64; 2] = shuffle(base).convert();
    add_by_64s(shuffled, to_add.convert()).convert()
}

#[cfg(all(any(target_arch = "x86", target_arch = "x86_64"), target_feature = "sse2", not(miri)))]
#[inline(always)]
pub(crate) fn add_by_64s(a: [u64; 2], b: [u64; 2]) -> [u64; 2] {
    use core::mem::transmute;
    unsafe {
        #[cfg(target_arch = "x86")]
        use core::arch::x86::*;
        #[cfg(target_arch = "x86_64")]
        use core::arch::x86_64::*;
        transmute(_mm_add_epi64(transmute(a), transmute(b)))
    }
}

#[cfg(not(all(any(target_arch = "x86", target_arch = "x86_64"), target_feature = "sse2", not(miri))))]
#[inline(always)]
pub(crate) fn add_by_64s(a: [u64; 2], b: [u64; 2]) -> [u64; 2] {
    [a[0].wrapping_add(b[0]), a[1].wrapping_add(b[1])]
}

#[cfg(all(any(target_arch = "x86", target_arch = "x86_64"), target_feature = "aes", not(miri)))]
#[allow(unused)]
#[inline(always)]
pub(crate) fn aesenc(value: u128, xor: u128) -> u128 {
    #[cfg(target_arch = "x86")]
    use core::arch::x86::*;
    #[cfg(target_arch = "x86_64")]
    use core::arch::x86_64::*;
    use core::mem::transmute;
    unsafe {
        let value = transmute(value);
        transmute(_mm_aesenc_si128(value, transmute(xor)))
    }
}

#[cfg(all(any(target_arch = "arm", target_arch = "aarch64"), target_feature = "crypto", not(miri), feature = "stdsimd"))]
#[allow(unused)]
#[inline(always)]
pub(crate) fn aesenc(value: u128, xor: u128) -> u128 {
    #[cfg(target_arch = "arm")]
    use core::arch::arm::*;
    #[cfg(target_arch = "aarch64")]
    use core::arch::aarch64::*;
    use core::mem::transmute;
    unsafe {
        let value = transmute(value);
        transmute(vaesmcq_u8(vaeseq_u8(value, transmute(xor))))
    }
}

#[cfg(all(any(target_arch = "x86", target_arch = "x86_64"), target_feature = "aes", not(miri)))]
#[allow(unused)]
#[inline(always)]
pub(crate) fn aesdec(value: u128, xor: u128) -> u128 {
    #[cfg(target_arch = "x86")]
    use core::arch::x86::*;
    #[cfg(target_arch = "x86_64")]
    use core::arch::x86_64::*;
    use core::mem::transmute;
    unsafe {
        let value = transmute(value);
        transmute(_mm_aesdec_si128(value, transmute(xor)))
    }
}

#[cfg(all(any(target_arch = "arm", target_arch = "aarch64"), target_feature = "crypto", not(miri), feature = "stdsimd"))]
#[allow(unused)]
#[inline(always)]
pub(crate) fn aesdec(value: u128, xor: u128) -> u128 {
    #[cfg(target_arch = "arm")]
    use core::arch::arm::*;
    #[cfg(target_arch = "aarch64")]
    use core::arch::aarch64::*;
    use core::mem::transmute;
    unsafe {
        let value = transmute(value);
        transmute(vaesimcq_u8(vaesdq_u8(value, transmute(xor))))
    }
}

#[cfg(test)]
mod test {
    use super::*;
    use crate::convert::Convert;

    // This is code to search for the shuffle constant
    //
    //thread_local! { static MASK: Cell<u128> = Cell::new(0); }
    //
    // fn shuffle(a: u128) -> u128 {
    //     use std::intrinsics::transmute;
    //     #[cfg(target_arch = "x86")]
    //     use core::arch::x86::*;
    //     #[cfg(target_arch = "x86_64")]
    //     use core::arch::x86_64::*;
    //     MASK.with(|mask| {
    //         unsafe { transmute(_mm_shuffle_epi8(transmute(a), transmute(mask.get()))) }
    //     })
    // }
    //
    // #[test]
    // fn find_shuffle() {
    //     use rand::prelude::*;
    //     use SliceRandom;
    //     use std::panic;
    //     use std::io::Write;
    //
    //     let mut value: [u8; 16] = [0, 1, 2, 3, 4, 5, 6, 7, 8, 9, 10, 11, 12 ,13, 14, 15];
    //     let mut rand = thread_rng();
    //     let mut successful_list = HashMap::new();
    //     for _attempt in 0..10000000 {
    //         rand.shuffle(&mut value);
    //         let test_val = value.convert();
    //         MASK.with(|mask| {
    //             mask.set(test_val);
    //         });
    //         if let Ok(successful) = panic::catch_unwind(|| {
    //             test_shuffle_does_not_collide_with_aes();
    //             test_shuffle_moves_high_bits();
    //             test_shuffle_moves_every_value();
    //             //test_shuffle_does_not_loop();
    //             value
    //         }) {
    //             let successful: u128 = successful.convert();
    //             successful_list.insert(successful, iters_before_loop());
    //         }
    //     }
    //     let write_file = File::create("/tmp/output").unwrap();
    //     let mut writer = BufWriter::new(&write_file);
    //
    //     for success in successful_list {
    //         writeln!(writer, "Found successful: {:x?} - {:?}", success.0, success.1);
    //     }
    // }
    //
    // fn iters_before_loop() -> u32 {
    //     let numbered = 0x00112233_44556677_8899AABB_CCDDEEFF;
    //     let mut shuffled = shuffle(numbered);
    //     let mut count = 0;
    //     loop {
    //         // println!("{:>16x}", shuffled);
    //         if numbered == shuffled {
    //             break;
    //         }
    //         count += 1;
    //         shuffled = shuffle(shuffled);
    //     }
    //     count
    // }

    #[cfg(all(
        any(target_arch = "x86", target_arch = "x86_64"),
        target_feature = "ssse3",
        target_feature = "aes",
        not(miri)
    ))]
    #[test]
    fn test_shuffle_does_not_collide_with_aes() {
        let mut value: [u8; 16] = [0; 16];
        let zero_mask_enc = aesenc(0, 0);
        let zero_mask_dec = aesdec(0, 0);
        for index in 0..16 {
            value[index] = 1;
            let excluded_positions_enc: [u8; 16] = aesenc(value.convert(), zero_mask_enc).convert();
            let excluded_positions_dec: [u8; 16] = aesdec(value.convert(), zero_mask_dec).convert();
            let actual_location: [u8; 16] = shuffle(value.convert()).convert();
            for pos in 0..16 {
                if actual_location[pos] != 0 {
                    assert_eq!(
                        0, excluded_positions_enc[pos],
                        "Forward Overlap between {:?} and {:?} at {}",
                        excluded_positions_enc, actual_location, index
                    );
                    assert_eq!(
                        0, excluded_positions_dec[pos],
                        "Reverse Overlap between {:?} and {:?} at {}",
                        excluded_positions_dec, actual_location, index
                    );
                }
            }
            value[index] = 0;
        }
    }

    #[test]
    fn test_shuffle_contains_each_value() {
        let value: [u8; 16] = 0x00010203_04050607_08090A0B_0C0D0E0F_u128.convert();
        let shuffled: [u8; 16] = shuffle(value.convert()).convert();
        for index in 0..16_u8 {
            assert!(shuffled.contains(&index), "Value is missing {}", index);
        }
    }

    #[test]
    fn test_shuffle_moves_every_value() {
        let mut value: [u8; 16] = [0; 16];
        for index in 0..16 {
            value[index] = 1;
            let shuffled: [u8; 16] = shuffle(value.convert()).convert();
            assert_eq!(0, shuffled[index], "Value is not moved {}", index);
            value[index] = 0;
        }
    }

    #[test]
    fn test_shuffle_moves_high_bits() {
        assert!(
            shuffle(1) > (1_u128 << 80),
            "Low bits must be moved to other half {:?} -> {:?}",
            0,
            shuffle(1)
        );

        assert!(
            shuffle(1_u128 << 58) >= (1_u128 << 64),
            "High bits must be moved to other half {:?} -> {:?}",
            7,
            shuffle(1_u128 << 58)
        );
        assert!(
            shuffle(1_u128 << 58) < (1_u128 << 112),
            "High bits must not remain high {:?} -> {:?}",
            7,
            shuffle(1_u128 << 58)
        );
        assert!(
            shuffle(1_u128 << 64) < (1_u128 << 64),
            "Low bits must be moved to other half {:?} -> {:?}",
            8,
            shuffle(1_u128 << 64)
        );
        assert!(
            shuffle(1_u128 << 64) >= (1_u128 << 16),
            "Low bits must not remain low {:?} -> {:?}",
            8,
            shuffle(1_u128 << 64)
        );

        assert!(
            shuffle(1_u128 << 120) < (1_u128 << 50),
            "High bits must be moved to low half {:?} -> {:?}",
            15,
            shuffle(1_u128 << 120)
        );
    }

    #[cfg(all(
        any(target_arch = "x86", target_arch = "x86_64"),
        target_feature = "ssse3",
        not(miri)
    ))]
    #[test]
    fn test_shuffle_does_not_loop() {
        let numbered = 0x00112233_44556677_8899AABB_CCDDEEFF;
        let mut shuffled = shuffle(numbered);
        for count in 0..100 {
            // println!("{:>16x}", shuffled);
            assert_ne!(numbered, shuffled, "Equal after {} vs {:x}", count, shuffled);
            shuffled = shuffle(shuffled);
        }
    }
}

use core::hash::BuildHasher;
use core::hash::Hash;
use core::hash::Hasher;

#[cfg(not(feature = "std"))]
extern crate alloc;
#[cfg(feature = "std")]
extern crate std as alloc;

#[cfg(feature = "specialize")]
use crate::BuildHasherExt;
#[cfg(feature = "specialize")]
use alloc::string::String;
#[cfg(feature = "specialize")]
use alloc::vec::Vec;

/// Provides a way to get an optimized hasher for a given data type.
/// Rather than using a Hasher generically which can hash any value, this provides a way to get a specialized hash
/// for a specific type. So this may be faster for primitive types.
/// # Example
/// ```
/// use std::hash::BuildHasher;
/// use ahash::RandomState;
/// use ahash::CallHasher;
///
/// let hash_builder = RandomState::new();
/// //...
/// let value: u32 = 17;
/// let hash = u32::get_hash(&value, &hash_builder);
/// ```
/// Note that the type used to invoke `get_hash` must be the same a the type of value passed.
/// For example get a hasher specialized on `[u8]` can invoke:
/// ```
/// /// use std::hash::BuildHasher;
/// # use ahash::RandomState;
/// # use ahash::CallHasher;
/// # let hash_builder = RandomState::new();
/// let bytes: [u8; 4] = [1, 2, 3, 4];
/// let hash = <[u8]>::get_hash(&bytes, &hash_builder);
/// ```
pub trait CallHasher {
    fn get_hash<H: Hash + ?Sized, B: BuildHasher>(value: &H, build_hasher: &B) -> u64;
}

#[cfg(not(feature = "specialize"))]
impl<T> CallHasher for T
where
    T: Hash + ?Sized,
{
    #[inline]
    fn get_hash<H: Hash + ?Sized, B: BuildHasher>(value: &H, build_hasher: &B) -> u64 {
        let mut hasher = build_hasher.build_hasher();
        value.hash(&mut hasher);
        hasher.finish()
    }
}

#[cfg(feature = "specialize")]
impl<T> CallHasher for T
where
    T: Hash + ?Sized,
{
    #[inline]
    default fn get_hash<H: Hash + ?Sized, B: BuildHasher>(value: &H, build_hasher: &B) -> u64 {
        let mut hasher = build_hasher.build_hasher();
        value.hash(&mut hasher);
        hasher.finish()
    }
}

macro_rules! call_hasher_impl {
    ($typ:ty) => {
        #[cfg(feature = "specialize")]
        impl CallHasher for $typ {
            #[inline]
            fn get_hash<H: Hash + ?Sized, B: BuildHasher>(value: &H, build_hasher: &B) -> u64 {
                build_hasher.hash_as_u64(value)
            }
        }
    };
}
call_hasher_impl!(u8);
call_hasher_impl!(u16);
call_hasher_impl!(u32);
call_hasher_impl!(u64);
call_hasher_impl!(i8);
call_hasher_impl!(i16);
call_hasher_impl!(i32);
call_hasher_impl!(i64);

#[cfg(feature = "specialize")]
impl CallHasher for u128 {
    #[inline]
    fn get_hash<H: Hash + ?Sized, B: BuildHasher>(value: &H, build_hasher: &B) -> u64 {
        build_hasher.hash_as_fixed_length(value)
    }
}

#[cfg(feature = "specialize")]
impl CallHasher for i128 {
    #[inline]
    fn get_hash<H: Hash + ?Sized, B: BuildHasher>(value: &H, build_hasher: &B) -> u64 {
        build_hasher.hash_as_fixed_length(value)
    }
}

#[cfg(feature = "specialize")]
impl CallHasher for usize {
    #[inline]
    fn get_hash<H: Hash + ?Sized, B: BuildHasher>(value: &H, build_hasher: &B) -> u64 {
        build_hasher.hash_as_fixed_length(value)
    }
}

#[cfg(feature = "specialize")]
impl CallHasher for isize {
    #[inline]
    fn get_hash<H: Hash + ?Sized, B: BuildHasher>(value: &H, build_hasher: &B) -> u64 {
        build_hasher.hash_as_fixed_length(value)
    }
}

#[cfg(feature = "specialize")]
impl CallHasher for [u8] {
    #[inline]
    fn get_hash<H: Hash + ?Sized, B: BuildHasher>(value: &H, build_hasher: &B) -> u64 {
        build_hasher.hash_as_str(value)
    }
}

#[cfg(feature = "specialize")]
impl CallHasher for Vec<u8> {
    #[inline]
    fn get_hash<H: Hash + ?Sized, B: BuildHasher>(value: &H, build_hasher: &B) -> u64 {
        build_hasher.hash_as_str(value)
    }
}

#[cfg(feature = "specialize")]
impl CallHasher for str {
    #[inline]
    fn get_hash<H: Hash + ?Sized, B: BuildHasher>(value: &H, build_hasher: &B) -> u64 {
        build_hasher.hash_as_str(value)
    }
}

#[cfg(all(feature = "specialize"))]
impl CallHasher for String {
    #[inline]
    fn get_hash<H: Hash + ?Sized, B: BuildHasher>(value: &H, build_hasher: &B) -> u64 {
        build_hasher.hash_as_str(value)
    }
}

#[cfg(test)]
mod test {
    use super::*;
    use crate::*;

    #[test]
    #[cfg(feature = "specialize")]
    pub fn test_specialized_invoked() {
        let build_hasher = RandomState::with_seeds(1, 2, 3, 4);
        let shortened = u64::get_hash(&0, &build_hasher);
        let mut hasher = AHasher::new_with_keys(1, 2);
        0_u64.hash(&mut hasher);
        assert_ne!(hasher.finish(), shortened);
    }

    /// Tests that some non-trivial transformation takes place.
    #[test]
    pub fn test_input_processed() {
        let build_hasher = RandomState::with_seeds(2, 2, 2, 2);
        assert_ne!(0, u64::get_hash(&0, &build_hasher));
        assert_ne!(1, u64::get_hash(&0, &build_hasher));
        assert_ne!(2, u64::get_hash(&0, &build_hasher));
        assert_ne!(3, u64::get_hash(&0, &build_hasher));
        assert_ne!(4, u64::get_hash(&0, &build_hasher));
        assert_ne!(5, u64::get_hash(&0, &build_hasher));

        assert_ne!(0, u64::get_hash(&1, &build_hasher));
        assert_ne!(1, u64::get_hash(&1, &build_hasher));
        assert_ne!(2, u64::get_hash(&1, &build_hasher));
        assert_ne!(3, u64::get_hash(&1, &build_hasher));
        assert_ne!(4, u64::get_hash(&1, &build_hasher));
        assert_ne!(5, u64::get_hash(&1, &build_hasher));

        let xored = u64::get_hash(&0, &build_hasher) ^ u64::get_hash(&1, &build_hasher);
        assert_ne!(0, xored);
        assert_ne!(1, xored);
        assert_ne!(2, xored);
        assert_ne!(3, xored);
        assert_ne!(4, xored);
        assert_ne!(5, xored);
    }

    #[test]
    pub fn test_ref_independent() {
        let build_hasher = RandomState::with_seeds(1, 2, 3, 4);
        assert_eq!(u8::get_hash(&&1, &build_hasher), u8::get_hash(&1, &build_hasher));
        assert_eq!(u16::get_hash(&&2, &build_hasher), u16::get_hash(&2, &build_hasher));
        assert_eq!(u32::get_hash(&&3, &build_hasher), u32::get_hash(&3, &build_hasher));
        assert_eq!(u64::get_hash(&&4, &build_hasher), u64::get_hash(&4, &build_hasher));
        assert_eq!(u128::get_hash(&&5, &build_hasher), u128::get_hash(&5, &build_hasher));
        assert_eq!(
            str::get_hash(&"test", &build_hasher),
            str::get_hash("test", &build_hasher)
        );
        assert_eq!(
            str::get_hash(&"test", &build_hasher),
            String::get_hash(&"test".to_string(), &build_hasher)
        );
        #[cfg(feature = "specialize")]
        assert_eq!(
            str::get_hash(&"test", &build_hasher),
            <[u8]>::get_hash("test".as_bytes(), &build_hasher)
        );

        let build_hasher = RandomState::with_seeds(10, 20, 30, 40);
        assert_eq!(u8::get_hash(&&&1, &build_hasher), u8::get_hash(&1, &build_hasher));
        assert_eq!(u16::get_hash(&&&2, &build_hasher), u16::get_hash(&2, &build_hasher));
        assert_eq!(u32::get_hash(&&&3, &build_hasher), u32::get_hash(&3, &build_hasher));
        assert_eq!(u64::get_hash(&&&4, &build_hasher), u64::get_hash(&4, &build_hasher));
        assert_eq!(u128::get_hash(&&&5, &build_hasher), u128::get_hash(&5, &build_hasher));
        assert_eq!(
            str::get_hash(&&"test", &build_hasher),
            str::get_hash("test", &build_hasher)
        );
        assert_eq!(
            str::get_hash(&&"test", &build_hasher),
            String::get_hash(&"test".to_string(), &build_hasher)
        );
        #[cfg(feature = "specialize")]
        assert_eq!(
            str::get_hash(&&"test", &build_hasher),
            <[u8]>::get_hash(&"test".to_string().into_bytes(), &build_hasher)
        );
    }
}

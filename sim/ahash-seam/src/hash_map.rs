use std::borrow::Borrow;
use std::collections::{hash_map, HashMap};
use std::fmt::{self, Debug};
use std::hash::{BuildHasher, Hash};
use std::iter::FromIterator;
use std::ops::{Deref, DerefMut, Index};
use std::panic::UnwindSafe;

#[cfg(feature = "serde")]
use serde::{
    de::{Deserialize, Deserializer},
    ser::{Serialize, Serializer},
};

use crate::RandomState;

/// A [`HashMap`](std::collections::HashMap) using [`RandomState`](crate::RandomState) to hash the items.
/// (Requires the `std` feature to be enabled.)
#[derive(Clone)]
pub struct AHashMap<K, V, S = crate::RandomState>(HashMap<K, V, S>);

impl<K, V> From<HashMap<K, V, crate::RandomState>> for AHashMap<K, V> {
    fn from(item: HashMap<K, V, crate::RandomState>) -> Self {
        AHashMap(item)
    }
}

impl<K, V> Into<HashMap<K, V, crate::RandomState>> for AHashMap<K, V> {
    fn into(self) -> HashMap<K, V, crate::RandomState> {
        self.0
    }
}

impl<K, V> AHashMap<K, V, RandomState> {
    pub fn new() -> Self {
        AHashMap(HashMap::with_hasher(RandomState::default()))
    }

    pub fn with_capacity(capacity: usize) -> Self {
        AHashMap(HashMap::with_capacity_and_hasher(capacity, RandomState::default()))
    }
}

impl<K, V, S> AHashMap<K, V, S>
where
    S: BuildHasher,
{
    pub fn with_hasher(hash_builder: S) -> Self {
        AHashMap(HashMap::with_hasher(hash_builder))
    }

    pub fn with_capacity_and_hasher(capacity: usize, hash_builder: S) -> Self {
        AHashMap(HashMap::with_capacity_and_hasher(capacity, hash_builder))
    }
}

impl<K, V, S> AHashMap<K, V, S>
where
    K: Hash + Eq,
    S: BuildHasher,
{
    /// Returns a reference to the value corresponding to the key.
    ///
    /// The key may be any borrowed form of the map's key type, but
    /// [`Hash`] and [`Eq`] on the borrowed form *must* match those for
    /// the key type.
    ///
    /// # Examples
    ///
    /// ```
    /// use std::collections::HashMap;
    ///
    /// let mut map = HashMap::new();
    /// map.insert(1, "a");
    /// assert_eq!(map.get(&1), Some(&"a"));
    /// assert_eq!(map.get(&2), None);
    /// ```
    #[inline]
    pub fn get<Q: ?Sized>(&self, k: &Q) -> Option<&V>
    where
        K: Borrow<Q>,
        Q: Hash + Eq,
    {
        self.0.get(k)
    }

    /// Returns the key-value pair corresponding to the supplied key.
    ///
    /// The supplied key may be any borrowed form of the map's key type, but
    /// [`Hash`] and [`Eq`] on the borrowed form *must* match those for
    /// the key type.
    ///
    /// # Examples
    ///
    /// ```
    /// use std::collections::HashMap;
    ///
    /// let mut map = HashMap::new();
    /// map.insert(1, "a");
    /// assert_eq!(map.get_key_value(&1), Some((&1, &"a")));
    /// assert_eq!(map.get_key_value(&2), None);
    /// ```
    #[inline]
    pub fn get_key_value<Q: ?Sized>(&self, k: &Q) -> Option<(&K, &V)>
    where
        K: Borrow<Q>,
        Q: Hash + Eq,
    {
        self.0.get_key_value(k)
    }

    /// Returns a mutable reference to the value corresponding to the key.
    ///
    /// The key may be any borrowed form of the map's key type, but
    /// [`Hash`] and [`Eq`] on the borrowed form *must* match those for
    /// the key type.
    ///
    /// # Examples
    ///
    /// ```
    /// use std::collections::HashMap;
    ///
    /// let mut map = HashMap::new();
    /// map.insert(1, "a");
    /// if let Some(x) = map.get_mut(&1) {
    ///     *x = "b";
    /// }
    /// assert_eq!(map[&1], "b");
    /// ```
    #[inline]
    pub fn get_mut<Q: ?Sized>(&mut self, k: &Q) -> Option<&mut V>
    where
        K: Borrow<Q>,
        Q: Hash + Eq,
    {
        self.0.get_mut(k)
    }

    /// Inserts a key-value pair into the map.
    ///
    /// If the map did not have this key present, [`None`] is returned.
    ///
    /// If the map did have this key present, the value is updated, and the old
    /// value is returned. The key is not updated, though; this matters for
    /// types that can be `==` without being identical. See the [module-level
    /// documentation] for more.
    ///
    /// [module-level documentation]: crate::collections#insert-and-complex-keys
    ///
    /// # Examples
    ///
    /// ```
    /// use std::collections::HashMap;
    ///
    /// let mut map = HashMap::new();
    /// assert_eq!(map.insert(37, "a"), None);
    /// assert_eq!(map.is_empty(), false);
    ///
    /// map.insert(37, "b");
    /// assert_eq!(map.insert(37, "c"), Some("b"));
    /// assert_eq!(map[&37], "c");
    /// ```
    #[inline]
    pub fn insert(&mut self, k: K, v: V) -> Option<V> {
        self.0.insert(k, v)
    }

    /// Removes a key from the map, returning the value at the key if the key
    /// was previously in the map.
    ///
    /// The key may be any borrowed form of the map's key type, but
    /// [`Hash`] and [`Eq`] on the borrowed form *must* match those for
    /// the key type.
    ///
    /// # Examples
    ///
    /// ```
    /// use std::collections::HashMap;
    ///
    /// let mut map = HashMap::new();
    /// map.insert(1, "a");
    /// assert_eq!(map.remove(&1), Some("a"));
    /// assert_eq!(map.remove(&1), None);
    /// ```
    #[inline]
    pub fn remove<Q: ?Sized>(&mut self, k: &Q) -> Option<V>
    where
        K: Borrow<Q>,
        Q: Hash + Eq,
    {
        self.0.remove(k)
    }
}

impl<K, V, S> Deref for AHashMap<K, V, S> {
    type Target = HashMap<K, V, S>;
    fn deref(&self) -> &Self::Target {
        &self.0
    }
}

impl<K, V, S> DerefMut for AHashMap<K, V, S> {
    fn deref_mut(&mut self) -> &mut Self::Target {
        &mut self.0
    }
}

impl<K, V, S> UnwindSafe for AHashMap<K, V, S>
where
    K: UnwindSafe,
    V: UnwindSafe,
{
}

impl<K, V, S> PartialEq for AHashMap<K, V, S>
where
    K: Eq + Hash,
    V: PartialEq,
    S: BuildHasher,
{
    fn eq(&self, other: &AHashMap<K, V, S>) -> bool {
        self.0.eq(&other.0)
    }
}

impl<K, V, S> Eq for AHashMap<K, V, S>
where
    K: Eq + Hash,
    V: Eq,
    S: BuildHasher,
{
}

impl<K, Q: ?Sized, V, S> Index<&Q> for AHashMap<K, V, S>
where
    K: Eq + Hash + Borrow<Q>,
    Q: Eq + Hash,
    S: BuildHasher,
{
    type Output = V;

    /// Returns a reference to the value corresponding to the supplied key.
    ///
    /// # Panics
    ///
    /// Panics if the key is not present in the `HashMap`.
    #[inline]
    fn index(&self, key: &Q) -> &V {
        self.0.index(key)
    }
}

impl<K, V, S> Debug for AHashMap<K, V, S>
where
    K: Debug,
    V: Debug,
    S: BuildHasher,
{
    fn fmt(&self, fmt: &mut fmt::Formatter) -> fmt::Result {
        self.0.fmt(fmt)
    }
}

impl<K, V, S> FromIterator<(K, V)> for AHashMap<K, V, S>
where
    K: Eq + Hash,
    S: BuildHasher + Default,
{
    fn from_iter<T: IntoIterator<Item = (K, V)>>(iter: T) -> Self {
        AHashMap(HashMap::from_iter(iter))
    }
}

impl<'a, K, V, S> IntoIterator for &'a AHashMap<K, V, S> {
    type Item = (&'a K, &'a V);
    type IntoIter = hash_map::Iter<'a, K, V>;
    fn into_iter(self) -> Self::IntoIter {
        (&self.0).iter()
    }
}

impl<'a, K, V, S> IntoIterator for &'a mut AHashMap<K, V, S> {
    type Item = (&'a K, &'a mut V);
    type IntoIter = hash_map::IterMut<'a, K, V>;
    fn into_iter(self) -> Self::IntoIter {
        (&mut self.0).iter_mut()
    }
}

impl<K, V, S> IntoIterator for AHashMap<K, V, S> {
    type Item = (K, V);
    type IntoIter = hash_map::IntoIter<K, V>;
    fn into_iter(self) -> Self::IntoIter {
        self.0.into_iter()
    }
}

impl<K, V, S> Extend<(K, V)> for AHashMap<K, V, S>
where
    K: Eq + Hash,
    S: BuildHasher,
{
    #[inline]
    fn extend<T: IntoIterator<Item = (K, V)>>(&mut self, iter: T) {
        self.0.extend(iter)
    }
}

impl<'a, K, V, S> Extend<(&'a K, &'a V)> for AHashMap<K, V, S>
where
    K: Eq + Hash + Copy + 'a,
    V: Copy + 'a,
    S: BuildHasher,
{
    #[inline]
    fn extend<T: IntoIterator<Item = (&'a K, &'a V)>>(&mut self, iter: T) {
        self.0.extend(iter)
    }
}

impl<K, V> Default for AHashMap<K, V, RandomState> {
    #[inline]
    fn default() -> AHashMap<K, V, RandomState> {
        AHashMap::new()
    }
}

#[cfg(feature = "serde")]
impl<K, V> Serialize for AHashMap<K, V>
where
    K: Serialize + Eq + Hash,
    V: Serialize,
{
    fn serialize<S: Serializer>(&self, serializer: S) -> Result<S::Ok, S::Error> {
        self.deref().serialize(serializer)
    }
}

#[cfg(feature = "serde")]
impl<'de, K, V> Deserialize<'de> for AHashMap<K, V>
where
    K: Deserialize<'de> + Eq + Hash,
    V: Deserialize<'de>,
{
    fn deserialize<D: Deserializer<'de>>(deserializer: D) -> Result<Self, D::Error> {
        let hash_map = HashMap::deserialize(deserializer);
        hash_map.map(|hash_map| Self(hash_map))
    }
}

#[cfg(test)]
mod test {
    use super::*;
    #[test]
    fn test_borrow() {
        let mut map: AHashMap<String, String> = AHashMap::new();
        map.insert("foo".to_string(), "Bar".to_string());
        map.insert("Bar".to_string(), map.get("foo").unwrap().to_owned());
    }

    #[cfg(feature = "serde")]
    #[test]
    fn test_serde() {
        let mut map = AHashMap::new();
        map.insert("for".to_string(), 0);
        map.insert("bar".to_string(), 1);
        let serialization = serde_json::to_string(&map).unwrap();
        let deserialization: AHashMap<String, u64> = serde_json::from_str(&serialization).unwrap();
        assert_eq!(deserialization, map);
    }
}

//! sim-rayon — the *schedule seam* (S1 in /verif/DESIGN.md).
//!
//! A drop-in replacement for the part of rayon's API that dusk-plonk and
//! dusk-bls12_381 use.  Nothing here runs in parallel.  Every decision a real
//! work-stealing pool takes implicitly — how an index space is cut into
//! pieces, in which order the pieces run, in which order the two closures of
//! a `join` run, how partial sums are combined, and what
//! `current_num_threads()` reports — is drawn from a seeded controller owned
//! by the simulator (`sim::Ctl`).  One seed = one exactly repeatable
//! execution.  Tasks run to completion (task-granular scheduling); see the
//! model assumption in DESIGN.md §1.
//!
//! The crate is patched in for *every* crate of the dependency graph through
//! `[patch.crates-io]`, so dusk-bls12_381's MSM is scheduled by it too.

pub mod iter;
pub mod sim;
pub mod slice;

pub mod prelude {
    pub use crate::iter::{
        FromParallelIterator, IndexedParallelIterator, IntoParallelIterator, IntoParallelRefIterator,
        IntoParallelRefMutIterator, ParallelBridge, ParallelExtend, ParallelIterator,
    };
    pub use crate::slice::{ParallelSlice, ParallelSliceMut};
}

/// The pool size the simulator reports for the current logical thread.
pub fn current_num_threads() -> usize {
    sim::threads()
}

/// Fork-join of two closures; the simulator decides which runs first.
pub fn join<A, B, RA, RB>(oper_a: A, oper_b: B) -> (RA, RB)
where
    A: FnOnce() -> RA,
    B: FnOnce() -> RB,
{
    let b_first = sim::decide_join();
    if b_first {
        sim::task_boundary();
        let rb = oper_b();
        sim::task_boundary();
        let ra = oper_a();
        (ra, rb)
    } else {
        sim::task_boundary();
        let ra = oper_a();
        sim::task_boundary();
        let rb = oper_b();
        (ra, rb)
    }
}

/// rayon::scope is not used by the code under test; a sequential stand-in is
/// provided so that a change which starts using it still builds.
pub fn scope<'scope, OP, R>(op: OP) -> R
where
    OP: FnOnce(&Scope<'scope>) -> R,
{
    let s = Scope { _m: core::marker::PhantomData };
    op(&s)
}

pub struct Scope<'scope> {
    _m: core::marker::PhantomData<&'scope ()>,
}

impl<'scope> Scope<'scope> {
    pub fn spawn<BODY>(&self, body: BODY)
    where
        BODY: FnOnce(&Scope<'scope>) + 'scope,
    {
        sim::task_boundary();
        body(self)
    }
}

/// `ThreadPoolBuilder` / `ThreadPool`: a pool is just a pool *size* here; `install` reports that
/// size to the code it runs (schedule decisions still come from the installed controller).
#[derive(Debug, Default)]
pub struct ThreadPoolBuilder {
    threads: usize,
}

#[derive(Debug)]
pub struct ThreadPoolBuildError;

impl std::fmt::Display for ThreadPoolBuildError {
    fn fmt(&self, f: &mut std::fmt::Formatter<'_>) -> std::fmt::Result {
        f.write_str("thread pool build error")
    }
}

impl std::error::Error for ThreadPoolBuildError {}

impl ThreadPoolBuilder {
    pub fn new() -> Self {
        ThreadPoolBuilder { threads: 0 }
    }
    pub fn num_threads(mut self, n: usize) -> Self {
        self.threads = n;
        self
    }
    pub fn build(self) -> Result<ThreadPool, ThreadPoolBuildError> {
        Ok(ThreadPool { threads: self.threads })
    }
    pub fn build_global(self) -> Result<(), ThreadPoolBuildError> {
        Ok(())
    }
}

#[derive(Debug)]
pub struct ThreadPool {
    threads: usize,
}

impl ThreadPool {
    pub fn install<OP, R>(&self, op: OP) -> R
    where
        OP: FnOnce() -> R,
    {
        let old = sim::with(|c| {
            let old = c.threads;
            if self.threads > 0 {
                c.threads = self.threads;
            }
            old
        });
        let r = op();
        sim::with(|c| c.threads = old);
        r
    }
    pub fn current_num_threads(&self) -> usize {
        if self.threads > 0 {
            self.threads
        } else {
            sim::threads()
        }
    }
    pub fn join<A, B, RA, RB>(&self, a: A, b: B) -> (RA, RB)
    where
        A: FnOnce() -> RA,
        B: FnOnce() -> RB,
    {
        self.install(|| join(a, b))
    }
}

pub fn current_thread_index() -> Option<usize> {
    Some(0)
}

/// `rayon::spawn` runs the closure inline at a task boundary.
pub fn spawn<F: FnOnce()>(f: F) {
    sim::task_boundary();
    f()
}

pub mod slice_ext {}

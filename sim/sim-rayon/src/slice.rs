use crate::iter::{ChunksMutP, ChunksP, ParIter};

pub trait ParallelSlice<T> {
    fn as_parallel_slice(&self) -> &[T];

    fn par_chunks(&self, chunk_size: usize) -> ParIter<ChunksP<'_, T>> {
        assert!(chunk_size != 0, "chunk_size must not be zero");
        ParIter(ChunksP { s: self.as_parallel_slice(), size: chunk_size })
    }
}

impl<T> ParallelSlice<T> for [T] {
    fn as_parallel_slice(&self) -> &[T] {
        self
    }
}

pub trait ParallelSliceMut<T> {
    fn as_parallel_slice_mut(&mut self) -> &mut [T];

    fn par_chunks_mut(&mut self, chunk_size: usize) -> ParIter<ChunksMutP<'_, T>> {
        assert!(chunk_size != 0, "chunk_size must not be zero");
        ParIter(ChunksMutP { s: self.as_parallel_slice_mut(), size: chunk_size })
    }
}

impl<T> ParallelSliceMut<T> for [T] {
    fn as_parallel_slice_mut(&mut self) -> &mut [T] {
        self
    }
}

use crate::iter::{ChunksExactMutP, ChunksExactP, ChunksMutP, ChunksP, ParIter, WindowsP};

pub trait ParallelSlice<T> {
    fn as_parallel_slice(&self) -> &[T];

    fn par_chunks(&self, chunk_size: usize) -> ParIter<ChunksP<'_, T>> {
        assert!(chunk_size != 0, "chunk_size must not be zero");
        ParIter(ChunksP { s: self.as_parallel_slice(), size: chunk_size })
    }

    fn par_chunks_exact(&self, chunk_size: usize) -> ParIter<ChunksExactP<'_, T>> {
        assert!(chunk_size != 0, "chunk_size must not be zero");
        ParIter(ChunksExactP { s: self.as_parallel_slice(), size: chunk_size })
    }

    fn par_windows(&self, window_size: usize) -> ParIter<WindowsP<'_, T>> {
        assert!(window_size != 0, "window_size must not be zero");
        ParIter(WindowsP { s: self.as_parallel_slice(), size: window_size })
    }
}

impl<T> ParallelSlice<T> for [T] {
    fn as_parallel_slice(&self) -> &[T] {
        self
    }
}

pub trait ParallelSliceMut<T> {
    fn as_parallel_slice_mut(&mut self) -> &mut [T];

    fn par_chunks_mut(&mut self, chunk_size: usize) -> ParIter<ChunksMutP<'_, T>> {
        assert!(chunk_size != 0, "chunk_size must not be zero");
        ParIter(ChunksMutP { s: self.as_parallel_slice_mut(), size: chunk_size })
    }

    fn par_chunks_exact_mut(&mut self, chunk_size: usize) -> ParIter<ChunksExactMutP<'_, T>> {
        assert!(chunk_size != 0, "chunk_size must not be zero");
        ParIter(ChunksExactMutP { s: self.as_parallel_slice_mut(), size: chunk_size })
    }

    fn par_sort(&mut self)
    where
        T: Ord,
    {
        self.as_parallel_slice_mut().sort()
    }

    fn par_sort_unstable(&mut self)
    where
        T: Ord,
    {
        self.as_parallel_slice_mut().sort_unstable()
    }

    fn par_sort_by<F: Fn(&T, &T) -> std::cmp::Ordering>(&mut self, f: F) {
        self.as_parallel_slice_mut().sort_by(f)
    }

    fn par_sort_unstable_by<F: Fn(&T, &T) -> std::cmp::Ordering>(&mut self, f: F) {
        self.as_parallel_slice_mut().sort_unstable_by(f)
    }

    fn par_sort_by_key<K: Ord, F: Fn(&T) -> K>(&mut self, f: F) {
        self.as_parallel_slice_mut().sort_by_key(f)
    }

    fn par_sort_unstable_by_key<K: Ord, F: Fn(&T) -> K>(&mut self, f: F) {
        self.as_parallel_slice_mut().sort_unstable_by_key(f)
    }
}

impl<T> ParallelSliceMut<T> for [T] {
    fn as_parallel_slice_mut(&mut self) -> &mut [T] {
        self
    }
}

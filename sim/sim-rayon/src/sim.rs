//! The controller: one per logical thread, owned by the simulator.

use std::cell::RefCell;
use std::collections::BTreeMap;
use std::sync::atomic::{AtomicUsize, Ordering};

/// splitmix64 — the only PRNG in the schedule seam.
#[inline]
pub fn splitmix64(state: &mut u64) -> u64 {
    *state = state.wrapping_add(0x9E37_79B9_7F4A_7C15);
    let mut z = *state;
    z = (z ^ (z >> 30)).wrapping_mul(0xBF58_476D_1CE4_E5B9);
    z = (z ^ (z >> 27)).wrapping_mul(0x94D0_49BB_1331_11EB);
    z ^ (z >> 31)
}

#[inline]
fn mix(h: u64, v: u64) -> u64 {
    let mut s = h ^ v.wrapping_mul(0x9E37_79B9_7F4A_7C15);
    splitmix64(&mut s)
}

/// Scheduler state for one logical thread.
#[derive(Clone, Debug)]
pub struct Ctl {
    /// Value reported by `current_num_threads()`.
    pub threads: usize,
    /// PRNG state of the `sched` stream.
    pub rng: u64,
    /// `false`: canonical schedule (one piece, in order, a before b).
    pub random: bool,
    /// Number of random decisions still allowed; afterwards decisions are
    /// canonical.  Used by the minimiser ("replace the suffix of the decision
    /// trace by in-order decisions").
    pub budget: u64,
    /// Decisions taken so far (random or canonical).
    pub decisions: u64,
    /// Decisions whose outcome differed from the canonical one.
    pub noncanonical: u64,
    /// Running hash of every decision: the *interleaving id*.
    pub trace_hash: u64,
    /// Parallel calls seen.
    pub calls: u64,
    /// join() calls seen.
    pub joins: u64,
    /// Tasks (pieces + join arms) run.
    pub tasks: u64,
    /// Call-site shape -> how often it was reached ("rare path hit" probes).
    pub shapes: BTreeMap<String, u64>,
    /// Record shapes (string formatting) or not.
    pub record_shapes: bool,
}

impl Ctl {
    pub fn canonical() -> Self {
        Ctl {
            threads: 1,
            rng: 0,
            random: false,
            budget: u64::MAX,
            decisions: 0,
            noncanonical: 0,
            trace_hash: 0,
            calls: 0,
            joins: 0,
            tasks: 0,
            shapes: BTreeMap::new(),
            record_shapes: true,
        }
    }

    pub fn random(threads: usize, seed: u64) -> Self {
        let mut c = Self::canonical();
        c.threads = threads.max(1);
        c.rng = seed;
        c.random = true;
        c
    }

    #[inline]
    fn live(&mut self) -> bool {
        if self.random && self.budget > 0 {
            self.budget -= 1;
            true
        } else {
            false
        }
    }

    #[inline]
    fn below(&mut self, n: u64) -> u64 {
        if n <= 1 {
            0
        } else {
            splitmix64(&mut self.rng) % n
        }
    }

    fn note(&mut self, tag: u64, v: u64, canonical: bool) {
        self.decisions += 1;
        if !canonical {
            self.noncanonical += 1;
        }
        self.trace_hash = mix(mix(self.trace_hash, tag), v);
    }
}

thread_local! {
    static CTLS: RefCell<Vec<(usize, Ctl)>> = const { RefCell::new(Vec::new()) };
}

fn default_key() -> usize {
    0
}
fn default_yield() {}

static KEY_FN: AtomicUsize = AtomicUsize::new(0);
static YIELD_FN: AtomicUsize = AtomicUsize::new(0);

/// Install a function that names the current *logical* thread.  Needed under
/// shuttle, whose threads are coroutines on one OS thread and therefore share
/// `thread_local!` storage.
pub fn set_key_fn(f: fn() -> usize) {
    KEY_FN.store(f as usize, Ordering::SeqCst);
}

/// Install a function called at every task boundary (a scheduling point for
/// the concurrent-caller engine).
pub fn set_yield_fn(f: fn()) {
    YIELD_FN.store(f as usize, Ordering::SeqCst);
}

fn key() -> usize {
    let p = KEY_FN.load(Ordering::SeqCst);
    if p == 0 {
        default_key()
    } else {
        // SAFETY: only ever stored from a `fn() -> usize` in `set_key_fn`.
        let f: fn() -> usize = unsafe { core::mem::transmute(p) };
        f()
    }
}

/// Called before each task (piece of a parallel iterator, arm of a join).
pub fn task_boundary() {
    with(|c| c.tasks += 1);
    let p = YIELD_FN.load(Ordering::SeqCst);
    if p == 0 {
        default_yield()
    } else {
        // SAFETY: only ever stored from a `fn()` in `set_yield_fn`.
        let f: fn() = unsafe { core::mem::transmute(p) };
        f()
    }
}

/// Install a controller for the current logical thread (replacing any).
pub fn install(ctl: Ctl) {
    let k = key();
    CTLS.with(|c| {
        let mut v = c.borrow_mut();
        if let Some(slot) = v.iter_mut().find(|(kk, _)| *kk == k) {
            slot.1 = ctl;
        } else {
            v.push((k, ctl));
        }
    });
}

/// Remove and return the controller of the current logical thread.
pub fn take() -> Option<Ctl> {
    let k = key();
    CTLS.with(|c| {
        let mut v = c.borrow_mut();
        v.iter()
            .position(|(kk, _)| *kk == k)
            .map(|i| v.swap_remove(i).1)
    })
}

/// Run `f` on the current controller (a canonical throw-away one if none is
/// installed, so code outside a scenario behaves serially).
pub fn with<R>(f: impl FnOnce(&mut Ctl) -> R) -> R {
    let k = key();
    CTLS.with(|c| {
        let mut v = c.borrow_mut();
        if let Some(slot) = v.iter_mut().find(|(kk, _)| *kk == k) {
            f(&mut slot.1)
        } else {
            let mut tmp = Ctl::canonical();
            tmp.record_shapes = false;
            f(&mut tmp)
        }
    })
}

pub fn threads() -> usize {
    with(|c| c.threads)
}

pub(crate) fn decide_join() -> bool {
    with(|c| {
        c.joins += 1;
        let b_first = if c.live() { c.below(2) == 1 } else { false };
        c.note(1, b_first as u64, !b_first);
        b_first
    })
}

/// Decide how to cut an index space of `len` items: returns the piece
/// boundaries (`cuts[0] = 0 < ... < cuts[k] = len`) and the order in which the
/// `k` pieces run.
pub(crate) fn decide_pieces(len: usize, shape: impl FnOnce() -> String) -> (Vec<usize>, Vec<usize>) {
    with(|c| {
        c.calls += 1;
        if c.record_shapes {
            let s = shape();
            *c.shapes.entry(s).or_insert(0) += 1;
        }
        if len == 0 {
            c.note(2, 0, true);
            return (vec![0, 0], vec![0]);
        }
        if !c.live() {
            c.note(2, 1, true);
            return (vec![0, len], vec![0]);
        }
        let max_k = len.min(2 * c.threads + 1);
        // piece count: bias towards "as many as threads" and towards 1..3
        let k = match c.below(4) {
            0 => 1 + c.below(max_k as u64) as usize,
            1 => max_k.min(c.threads.max(1)),
            2 => max_k.min(1 + c.below(3) as usize),
            _ => max_k,
        }
        .max(1);
        let mut cuts: Vec<usize> = Vec::with_capacity(k + 1);
        cuts.push(0);
        if k > 1 {
            match c.below(4) {
                // even split, like rayon's recursive halving
                0 => {
                    for i in 1..k {
                        cuts.push(i * len / k);
                    }
                }
                // single-element pieces at the front, remainder at the back
                1 => {
                    for i in 1..k {
                        cuts.push(i.min(len - 1));
                    }
                }
                // single-element pieces at the back
                2 => {
                    for i in (1..k).rev() {
                        cuts.push(len - i.min(len - 1));
                    }
                }
                // uniform random cut points
                _ => {
                    for _ in 1..k {
                        let p = 1 + c.below((len - 1) as u64) as usize;
                        cuts.push(p);
                    }
                }
            }
        }
        cuts.push(len);
        cuts.sort_unstable();
        cuts.dedup();
        let k = cuts.len() - 1;
        // execution order: a seeded permutation (Fisher-Yates), sometimes
        // reversed or in order
        let mut order: Vec<usize> = (0..k).collect();
        match c.below(4) {
            0 => {}
            1 => order.reverse(),
            _ => {
                for i in (1..k).rev() {
                    let j = c.below((i + 1) as u64) as usize;
                    order.swap(i, j);
                }
            }
        }
        let mut h = k as u64;
        for x in &cuts {
            h = mix(h, *x as u64);
        }
        for x in &order {
            h = mix(h, *x as u64);
        }
        let canonical = k == 1;
        c.note(2, h, canonical);
        (cuts, order)
    })
}

/// Decide the next adjacent pair to combine when reducing `k` partial
/// results (`0..k-1`); canonical is left-to-right.
pub(crate) fn decide_merge(k: usize) -> usize {
    with(|c| {
        let i = if k > 2 && c.live() { c.below((k - 1) as u64) as usize } else { 0 };
        c.note(3, i as u64, i == 0);
        i
    })
}

/// `par_bridge` does not keep the order of the iterator it bridges: the order in which the items
/// of a bridged iterator of `n` items reach the consumer (canonical: the iterator's own order;
/// only when the pool has more than one thread).
pub(crate) fn decide_bridge_order(n: usize) -> Vec<usize> {
    with(|c| {
        let mut order: Vec<usize> = (0..n).collect();
        let mut moved = false;
        if n > 1 && c.threads > 1 && c.live() {
            // a few seeded transpositions / one rotation: what a handful of workers pulling from one
            // iterator produces, not a uniform shuffle
            let swaps = 1 + c.below(4);
            for _ in 0..swaps {
                let i = c.below(n as u64) as usize;
                let j = (i + 1 + c.below(8.min(n as u64 - 1).max(1)) as usize) % n;
                if i != j {
                    order.swap(i, j);
                    moved = true;
                }
            }
        }
        c.note(5, moved as u64, !moved);
        order
    })
}

/// For a short-circuiting `all`/`any`: after the verdict is known, should the
/// remaining pieces still be run?
pub(crate) fn decide_continue() -> bool {
    with(|c| {
        let go = if c.live() { c.below(2) == 1 } else { false };
        c.note(4, go as u64, !go);
        go
    })
}

//! Parallel iterators as a small producer algebra.  A `Producer` is an exact
//! size, splittable source; the simulator cuts it into pieces and runs them
//! sequentially in the order it chooses.

use std::iter::Sum;
use std::ops::Range;
use std::rc::Rc;

use crate::sim;

pub trait Producer: Sized {
    type Item;
    type IntoIter: Iterator<Item = Self::Item>;
    fn len(&self) -> usize;
    fn split_at(self, index: usize) -> (Self, Self);
    fn into_seq(self) -> Self::IntoIter;
    fn describe(&self) -> String;
}

fn len_class(len: usize) -> String {
    if len == 0 {
        "0".to_string()
    } else {
        format!("2^{}", usize::BITS - 1 - len.leading_zeros())
    }
}

/// Cut `p`, run the pieces in the simulator's order, return the per-piece
/// results in *index* order.
fn run_pieces<P: Producer, R>(p: P, op: &'static str, mut run: impl FnMut(P) -> R) -> Vec<R> {
    let len = p.len();
    let (cuts, order) = sim::decide_pieces(len, || format!("{}.{}@{}", p.describe(), op, len_class(len)));
    let k = cuts.len() - 1;
    // split back to front so that indices stay valid
    let mut pieces: Vec<Option<P>> = Vec::with_capacity(k);
    let mut rest = p;
    let mut tail: Vec<P> = Vec::with_capacity(k);
    for i in (1..k).rev() {
        let (l, r) = rest.split_at(cuts[i]);
        tail.push(r);
        rest = l;
    }
    pieces.push(Some(rest));
    while let Some(t) = tail.pop() {
        pieces.push(Some(t));
    }
    let mut out: Vec<Option<R>> = (0..k).map(|_| None).collect();
    for &i in &order {
        sim::task_boundary();
        let piece = pieces[i].take().expect("piece runs once");
        out[i] = Some(run(piece));
    }
    out.into_iter().map(|r| r.expect("every piece ran")).collect()
}

fn reduce_tree<S>(mut parts: Vec<S>, mut combine: impl FnMut(S, S) -> S) -> Option<S> {
    while parts.len() > 1 {
        let i = sim::decide_merge(parts.len());
        let b = parts.remove(i + 1);
        let a = parts.remove(i);
        parts.insert(i, combine(a, b));
    }
    parts.pop()
}

#[derive(Clone)]
pub struct ParIter<P>(pub(crate) P);

pub trait FromParallelIterator<T>: Sized {
    fn from_pieces(pieces: Vec<Vec<T>>) -> Self;
}

impl<T> FromParallelIterator<T> for Vec<T> {
    fn from_pieces(pieces: Vec<Vec<T>>) -> Self {
        let mut v = Vec::with_capacity(pieces.iter().map(|p| p.len()).sum());
        for p in pieces {
            v.extend(p);
        }
        v
    }
}

impl<T, E> FromParallelIterator<Result<T, E>> for Result<Vec<T>, E> {
    fn from_pieces(pieces: Vec<Vec<Result<T, E>>>) -> Self {
        let mut v = Vec::new();
        for p in pieces {
            for r in p {
                v.push(r?);
            }
        }
        Ok(v)
    }
}

impl<P: Producer> ParIter<P> {
    pub fn map<F, R>(self, f: F) -> ParIter<MapP<P, F>>
    where
        F: Fn(P::Item) -> R,
    {
        ParIter(MapP { base: self.0, f: Rc::new(f) })
    }

    pub fn zip<Z: IntoParallelIterator>(self, other: Z) -> ParIter<ZipP<P, Z::Prod>> {
        ParIter(ZipP { a: self.0, b: other.into_par_iter().0 })
    }

    pub fn enumerate(self) -> ParIter<EnumP<P>> {
        ParIter(EnumP { base: self.0, offset: 0 })
    }

    pub fn filter<F>(self, f: F) -> Filter<P, F>
    where
        F: Fn(&P::Item) -> bool,
    {
        Filter { base: self.0, f }
    }

    pub fn with_min_len(self, _min: usize) -> Self {
        self
    }

    pub fn with_max_len(self, _max: usize) -> Self {
        self
    }

    pub fn for_each<F>(self, f: F)
    where
        F: Fn(P::Item),
    {
        run_pieces(self.0, "for_each", |piece| piece.into_seq().for_each(&f));
    }

    pub fn collect<C: FromParallelIterator<P::Item>>(self) -> C {
        let pieces = run_pieces(self.0, "collect", |piece| piece.into_seq().collect::<Vec<_>>());
        C::from_pieces(pieces)
    }

    pub fn sum<S>(self) -> S
    where
        S: Sum<P::Item> + Sum<S>,
    {
        let parts = run_pieces(self.0, "sum", |piece| piece.into_seq().sum::<S>());
        match reduce_tree(parts, |a, b| [a, b].into_iter().sum::<S>()) {
            Some(s) => s,
            None => std::iter::empty::<S>().sum(),
        }
    }

    pub fn reduce<OP, ID>(self, identity: ID, op: OP) -> P::Item
    where
        OP: Fn(P::Item, P::Item) -> P::Item,
        ID: Fn() -> P::Item,
    {
        let parts = run_pieces(self.0, "reduce", |piece| piece.into_seq().fold(identity(), &op));
        reduce_tree(parts, &op).unwrap_or_else(identity)
    }

    pub fn count(self) -> usize {
        run_pieces(self.0, "count", |piece| piece.into_seq().count()).into_iter().sum()
    }

    pub fn all<F>(self, f: F) -> bool
    where
        F: Fn(P::Item) -> bool,
    {
        let mut verdict = true;
        run_pieces(self.0, "all", |piece| {
            if !verdict && !sim::decide_continue() {
                return;
            }
            for x in piece.into_seq() {
                if !f(x) {
                    verdict = false;
                    break;
                }
            }
        });
        verdict
    }

    pub fn any<F>(self, f: F) -> bool
    where
        F: Fn(P::Item) -> bool,
    {
        !self.all(|x| !f(x))
    }
}

impl<'a, T: 'a + Clone, P: Producer<Item = &'a T>> ParIter<P> {
    pub fn cloned(self) -> ParIter<MapP<P, fn(&'a T) -> T>> {
        fn c<T: Clone>(x: &T) -> T {
            x.clone()
        }
        ParIter(MapP { base: self.0, f: Rc::new(c::<T> as fn(&'a T) -> T) })
    }

    pub fn copied(self) -> ParIter<MapP<P, fn(&'a T) -> T>> {
        self.cloned()
    }
}

pub struct Filter<P, F> {
    base: P,
    f: F,
}

impl<P: Producer, F: Fn(&P::Item) -> bool> Filter<P, F> {
    pub fn collect<C: FromParallelIterator<P::Item>>(self) -> C {
        let f = self.f;
        let pieces = run_pieces(self.base, "filter.collect", |piece| {
            piece.into_seq().filter(|x| f(x)).collect::<Vec<_>>()
        });
        C::from_pieces(pieces)
    }

    pub fn count(self) -> usize {
        let f = self.f;
        run_pieces(self.base, "filter.count", |piece| piece.into_seq().filter(|x| f(x)).count())
            .into_iter()
            .sum()
    }

    pub fn map<G, R>(self, g: G) -> FilterMap<P, F, G>
    where
        G: Fn(P::Item) -> R,
    {
        FilterMap { base: self.base, f: self.f, g }
    }
}

pub struct FilterMap<P, F, G> {
    base: P,
    f: F,
    g: G,
}

impl<P: Producer, R, F: Fn(&P::Item) -> bool, G: Fn(P::Item) -> R> FilterMap<P, F, G> {
    pub fn collect<C: FromParallelIterator<R>>(self) -> C {
        let (f, g) = (self.f, self.g);
        let pieces = run_pieces(self.base, "filter.map.collect", |piece| {
            piece.into_seq().filter(|x| f(x)).map(&g).collect::<Vec<_>>()
        });
        C::from_pieces(pieces)
    }

    pub fn sum<S>(self) -> S
    where
        S: Sum<R> + Sum<S>,
    {
        let (f, g) = (self.f, self.g);
        let parts = run_pieces(self.base, "filter.map.sum", |piece| {
            piece.into_seq().filter(|x| f(x)).map(&g).sum::<S>()
        });
        match reduce_tree(parts, |a, b| [a, b].into_iter().sum::<S>()) {
            Some(s) => s,
            None => std::iter::empty::<S>().sum(),
        }
    }
}

// ---------------------------------------------------------------- producers

#[derive(Clone)]
pub struct RangeP {
    r: Range<usize>,
}

impl Producer for RangeP {
    type Item = usize;
    type IntoIter = Range<usize>;
    fn len(&self) -> usize {
        self.r.len()
    }
    fn split_at(self, index: usize) -> (Self, Self) {
        let mid = self.r.start + index;
        (RangeP { r: self.r.start..mid }, RangeP { r: mid..self.r.end })
    }
    fn into_seq(self) -> Self::IntoIter {
        self.r
    }
    fn describe(&self) -> String {
        "range".into()
    }
}

pub struct SliceP<'a, T> {
    pub(crate) s: &'a [T],
}

impl<'a, T> Clone for SliceP<'a, T> {
    fn clone(&self) -> Self {
        SliceP { s: self.s }
    }
}

impl<'a, T> Producer for SliceP<'a, T> {
    type Item = &'a T;
    type IntoIter = std::slice::Iter<'a, T>;
    fn len(&self) -> usize {
        self.s.len()
    }
    fn split_at(self, index: usize) -> (Self, Self) {
        let (a, b) = self.s.split_at(index);
        (SliceP { s: a }, SliceP { s: b })
    }
    fn into_seq(self) -> Self::IntoIter {
        self.s.iter()
    }
    fn describe(&self) -> String {
        "slice".into()
    }
}

pub struct SliceMutP<'a, T> {
    pub(crate) s: &'a mut [T],
}

impl<'a, T> Producer for SliceMutP<'a, T> {
    type Item = &'a mut T;
    type IntoIter = std::slice::IterMut<'a, T>;
    fn len(&self) -> usize {
        self.s.len()
    }
    fn split_at(self, index: usize) -> (Self, Self) {
        let (a, b) = self.s.split_at_mut(index);
        (SliceMutP { s: a }, SliceMutP { s: b })
    }
    fn into_seq(self) -> Self::IntoIter {
        self.s.iter_mut()
    }
    fn describe(&self) -> String {
        "slice_mut".into()
    }
}

pub struct ChunksP<'a, T> {
    pub(crate) s: &'a [T],
    pub(crate) size: usize,
}

impl<'a, T> Producer for ChunksP<'a, T> {
    type Item = &'a [T];
    type IntoIter = std::slice::Chunks<'a, T>;
    fn len(&self) -> usize {
        self.s.len().div_ceil(self.size)
    }
    fn split_at(self, index: usize) -> (Self, Self) {
        let at = (index * self.size).min(self.s.len());
        let (a, b) = self.s.split_at(at);
        (ChunksP { s: a, size: self.size }, ChunksP { s: b, size: self.size })
    }
    fn into_seq(self) -> Self::IntoIter {
        self.s.chunks(self.size)
    }
    fn describe(&self) -> String {
        "chunks".into()
    }
}

pub struct ChunksMutP<'a, T> {
    pub(crate) s: &'a mut [T],
    pub(crate) size: usize,
}

impl<'a, T> Producer for ChunksMutP<'a, T> {
    type Item = &'a mut [T];
    type IntoIter = std::slice::ChunksMut<'a, T>;
    fn len(&self) -> usize {
        self.s.len().div_ceil(self.size)
    }
    fn split_at(self, index: usize) -> (Self, Self) {
        let at = (index * self.size).min(self.s.len());
        let (a, b) = self.s.split_at_mut(at);
        (ChunksMutP { s: a, size: self.size }, ChunksMutP { s: b, size: self.size })
    }
    fn into_seq(self) -> Self::IntoIter {
        self.s.chunks_mut(self.size)
    }
    fn describe(&self) -> String {
        "chunks_mut".into()
    }
}

pub struct VecP<T> {
    v: Vec<T>,
}

impl<T> Producer for VecP<T> {
    type Item = T;
    type IntoIter = std::vec::IntoIter<T>;
    fn len(&self) -> usize {
        self.v.len()
    }
    fn split_at(mut self, index: usize) -> (Self, Self) {
        let tail = self.v.split_off(index);
        (self, VecP { v: tail })
    }
    fn into_seq(self) -> Self::IntoIter {
        self.v.into_iter()
    }
    fn describe(&self) -> String {
        "vec".into()
    }
}

pub struct ZipP<A, B> {
    a: A,
    b: B,
}

impl<A: Producer, B: Producer> Producer for ZipP<A, B> {
    type Item = (A::Item, B::Item);
    type IntoIter = std::iter::Zip<A::IntoIter, B::IntoIter>;
    fn len(&self) -> usize {
        self.a.len().min(self.b.len())
    }
    fn split_at(self, index: usize) -> (Self, Self) {
        let (a1, a2) = self.a.split_at(index);
        let (b1, b2) = self.b.split_at(index);
        (ZipP { a: a1, b: b1 }, ZipP { a: a2, b: b2 })
    }
    fn into_seq(self) -> Self::IntoIter {
        self.a.into_seq().zip(self.b.into_seq())
    }
    fn describe(&self) -> String {
        format!("zip({},{})", self.a.describe(), self.b.describe())
    }
}

pub struct MapP<P, F> {
    base: P,
    f: Rc<F>,
}

impl<P: Clone, F> Clone for MapP<P, F> {
    fn clone(&self) -> Self {
        MapP { base: self.base.clone(), f: self.f.clone() }
    }
}

pub struct MapIter<I, F> {
    it: I,
    f: Rc<F>,
}

impl<I: Iterator, R, F: Fn(I::Item) -> R> Iterator for MapIter<I, F> {
    type Item = R;
    fn next(&mut self) -> Option<R> {
        self.it.next().map(|x| (self.f)(x))
    }
    fn size_hint(&self) -> (usize, Option<usize>) {
        self.it.size_hint()
    }
}

impl<P: Producer, R, F: Fn(P::Item) -> R> Producer for MapP<P, F> {
    type Item = R;
    type IntoIter = MapIter<P::IntoIter, F>;
    fn len(&self) -> usize {
        self.base.len()
    }
    fn split_at(self, index: usize) -> (Self, Self) {
        let (a, b) = self.base.split_at(index);
        (MapP { base: a, f: self.f.clone() }, MapP { base: b, f: self.f })
    }
    fn into_seq(self) -> Self::IntoIter {
        MapIter { it: self.base.into_seq(), f: self.f }
    }
    fn describe(&self) -> String {
        format!("map({})", self.base.describe())
    }
}

pub struct EnumP<P> {
    base: P,
    offset: usize,
}

pub struct EnumIter<I> {
    it: I,
    i: usize,
}

impl<I: Iterator> Iterator for EnumIter<I> {
    type Item = (usize, I::Item);
    fn next(&mut self) -> Option<Self::Item> {
        let x = self.it.next()?;
        let i = self.i;
        self.i += 1;
        Some((i, x))
    }
}

impl<P: Producer> Producer for EnumP<P> {
    type Item = (usize, P::Item);
    type IntoIter = EnumIter<P::IntoIter>;
    fn len(&self) -> usize {
        self.base.len()
    }
    fn split_at(self, index: usize) -> (Self, Self) {
        let (a, b) = self.base.split_at(index);
        (EnumP { base: a, offset: self.offset }, EnumP { base: b, offset: self.offset + index })
    }
    fn into_seq(self) -> Self::IntoIter {
        EnumIter { it: self.base.into_seq(), i: self.offset }
    }
    fn describe(&self) -> String {
        format!("enumerate({})", self.base.describe())
    }
}

// ------------------------------------------------------------ entry traits

pub trait IntoParallelIterator {
    type Prod: Producer;
    fn into_par_iter(self) -> ParIter<Self::Prod>;
}

impl<P: Producer> IntoParallelIterator for ParIter<P> {
    type Prod = P;
    fn into_par_iter(self) -> ParIter<P> {
        self
    }
}

impl IntoParallelIterator for Range<usize> {
    type Prod = RangeP;
    fn into_par_iter(self) -> ParIter<RangeP> {
        ParIter(RangeP { r: self })
    }
}

impl<T> IntoParallelIterator for Vec<T> {
    type Prod = VecP<T>;
    fn into_par_iter(self) -> ParIter<VecP<T>> {
        ParIter(VecP { v: self })
    }
}

impl<'a, T> IntoParallelIterator for &'a [T] {
    type Prod = SliceP<'a, T>;
    fn into_par_iter(self) -> ParIter<SliceP<'a, T>> {
        ParIter(SliceP { s: self })
    }
}

impl<'a, T> IntoParallelIterator for &'a Vec<T> {
    type Prod = SliceP<'a, T>;
    fn into_par_iter(self) -> ParIter<SliceP<'a, T>> {
        ParIter(SliceP { s: self.as_slice() })
    }
}

impl<'a, T, const N: usize> IntoParallelIterator for &'a [T; N] {
    type Prod = SliceP<'a, T>;
    fn into_par_iter(self) -> ParIter<SliceP<'a, T>> {
        ParIter(SliceP { s: &self[..] })
    }
}

impl<'a, T> IntoParallelIterator for &'a mut [T] {
    type Prod = SliceMutP<'a, T>;
    fn into_par_iter(self) -> ParIter<SliceMutP<'a, T>> {
        ParIter(SliceMutP { s: self })
    }
}

impl<'a, T> IntoParallelIterator for &'a mut Vec<T> {
    type Prod = SliceMutP<'a, T>;
    fn into_par_iter(self) -> ParIter<SliceMutP<'a, T>> {
        ParIter(SliceMutP { s: self.as_mut_slice() })
    }
}

pub trait IntoParallelRefIterator<'a> {
    type Prod: Producer;
    fn par_iter(&'a self) -> ParIter<Self::Prod>;
}

impl<'a, T: 'a> IntoParallelRefIterator<'a> for [T] {
    type Prod = SliceP<'a, T>;
    fn par_iter(&'a self) -> ParIter<SliceP<'a, T>> {
        ParIter(SliceP { s: self })
    }
}

impl<'a, T: 'a> IntoParallelRefIterator<'a> for Vec<T> {
    type Prod = SliceP<'a, T>;
    fn par_iter(&'a self) -> ParIter<SliceP<'a, T>> {
        ParIter(SliceP { s: self.as_slice() })
    }
}

impl<'a, T: 'a, const N: usize> IntoParallelRefIterator<'a> for [T; N] {
    type Prod = SliceP<'a, T>;
    fn par_iter(&'a self) -> ParIter<SliceP<'a, T>> {
        ParIter(SliceP { s: &self[..] })
    }
}

pub trait IntoParallelRefMutIterator<'a> {
    type Prod: Producer;
    fn par_iter_mut(&'a mut self) -> ParIter<Self::Prod>;
}

impl<'a, T: 'a> IntoParallelRefMutIterator<'a> for [T] {
    type Prod = SliceMutP<'a, T>;
    fn par_iter_mut(&'a mut self) -> ParIter<SliceMutP<'a, T>> {
        ParIter(SliceMutP { s: self })
    }
}

impl<'a, T: 'a> IntoParallelRefMutIterator<'a> for Vec<T> {
    type Prod = SliceMutP<'a, T>;
    fn par_iter_mut(&'a mut self) -> ParIter<SliceMutP<'a, T>> {
        ParIter(SliceMutP { s: self.as_mut_slice() })
    }
}

impl<'a, T: 'a, const N: usize> IntoParallelRefMutIterator<'a> for [T; N] {
    type Prod = SliceMutP<'a, T>;
    fn par_iter_mut(&'a mut self) -> ParIter<SliceMutP<'a, T>> {
        ParIter(SliceMutP { s: &mut self[..] })
    }
}

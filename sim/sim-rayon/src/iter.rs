//! Parallel iterators as a small producer algebra.  A `Producer` is an exact
//! size, splittable source; the simulator cuts it into pieces and runs them
//! sequentially in the order it chooses.

use std::iter::Sum;
use std::ops::Range;
use std::rc::Rc;

use crate::sim;

pub trait Producer: Sized {
    type Item;
    type IntoIter: Iterator<Item = Self::Item>;
    fn len(&self) -> usize;
    fn split_at(self, index: usize) -> (Self, Self);
    fn into_seq(self) -> Self::IntoIter;
    fn describe(&self) -> String;
}

fn len_class(len: usize) -> String {
    if len == 0 {
        "0".to_string()
    } else {
        format!("2^{}", usize::BITS - 1 - len.leading_zeros())
    }
}

/// Cut `p`, run the pieces in the simulator's order, return the per-piece
/// results in *index* order.
fn run_pieces<P: Producer, R>(p: P, op: &'static str, mut run: impl FnMut(P) -> R) -> Vec<R> {
    let len = p.len();
    let (cuts, order) = sim::decide_pieces(len, || format!("{}.{}@{}", p.describe(), op, len_class(len)));
    let k = cuts.len() - 1;
    // split back to front so that indices stay valid
    let mut pieces: Vec<Option<P>> = Vec::with_capacity(k);
    let mut rest = p;
    let mut tail: Vec<P> = Vec::with_capacity(k);
    for i in (1..k).rev() {
        let (l, r) = rest.split_at(cuts[i]);
        tail.push(r);
        rest = l;
    }
    pieces.push(Some(rest));
    while let Some(t) = tail.pop() {
        pieces.push(Some(t));
    }
    let mut out: Vec<Option<R>> = (0..k).map(|_| None).collect();
    for &i in &order {
        sim::task_boundary();
        let piece = pieces[i].take().expect("piece runs once");
        out[i] = Some(run(piece));
    }
    out.into_iter().map(|r| r.expect("every piece ran")).collect()
}

fn reduce_tree<S>(mut parts: Vec<S>, mut combine: impl FnMut(S, S) -> S) -> Option<S> {
    while parts.len() > 1 {
        let i = sim::decide_merge(parts.len());
        let b = parts.remove(i + 1);
        let a = parts.remove(i);
        parts.insert(i, combine(a, b));
    }
    parts.pop()
}

#[derive(Clone)]
pub struct ParIter<P>(pub(crate) P);

pub trait FromParallelIterator<T>: Sized {
    fn from_pieces(pieces: Vec<Vec<T>>) -> Self;
}

impl<T> FromParallelIterator<T> for Vec<T> {
    fn from_pieces(pieces: Vec<Vec<T>>) -> Self {
        let mut v = Vec::with_capacity(pieces.iter().map(|p| p.len()).sum());
        for p in pieces {
            v.extend(p);
        }
        v
    }
}

impl<T, E> FromParallelIterator<Result<T, E>> for Result<Vec<T>, E> {
    fn from_pieces(pieces: Vec<Vec<Result<T, E>>>) -> Self {
        let mut v = Vec::new();
        for p in pieces {
            for r in p {
                v.push(r?);
            }
        }
        Ok(v)
    }
}

impl<P: Producer> ParIter<P> {
    pub fn map<F, R>(self, f: F) -> ParIter<MapP<P, F>>
    where
        F: Fn(P::Item) -> R,
    {
        ParIter(MapP { base: self.0, f: Rc::new(f) })
    }

    pub fn zip<Z: IntoParallelIterator>(self, other: Z) -> ParIter<ZipP<P, Z::Prod>> {
        ParIter(ZipP { a: self.0, b: other.into_par_iter().0 })
    }

    pub fn enumerate(self) -> ParIter<EnumP<P>> {
        ParIter(EnumP { base: self.0, offset: 0 })
    }

    /// Unindexed adaptors are evaluated eagerly, piece by piece (every piece is still a
    /// scheduled task); the result is a new indexed iterator over the produced items.
    fn eager<T>(self, op: &'static str, per_piece: impl Fn(P::IntoIter) -> Vec<T>) -> ParIter<VecP<T>> {
        let pieces = run_pieces(self.0, op, |piece| per_piece(piece.into_seq()));
        ParIter(VecP { v: Vec::from_pieces(pieces) })
    }

    pub fn filter<F>(self, f: F) -> ParIter<VecP<P::Item>>
    where
        F: Fn(&P::Item) -> bool,
    {
        self.eager("filter", |it| it.filter(|x| f(x)).collect())
    }

    pub fn filter_map<F, R>(self, f: F) -> ParIter<VecP<R>>
    where
        F: Fn(P::Item) -> Option<R>,
    {
        self.eager("filter_map", |it| it.filter_map(&f).collect())
    }

    pub fn flat_map<F, I>(self, f: F) -> ParIter<VecP<I::Item>>
    where
        F: Fn(P::Item) -> I,
        I: IntoIterator,
    {
        self.eager("flat_map", |it| it.flat_map(&f).collect())
    }

    pub fn flat_map_iter<F, I>(self, f: F) -> ParIter<VecP<I::Item>>
    where
        F: Fn(P::Item) -> I,
        I: IntoIterator,
    {
        self.flat_map(f)
    }

    pub fn flatten(self) -> ParIter<VecP<<P::Item as IntoIterator>::Item>>
    where
        P::Item: IntoIterator,
    {
        self.eager("flatten", |it| it.flatten().collect())
    }

    pub fn flatten_iter(self) -> ParIter<VecP<<P::Item as IntoIterator>::Item>>
    where
        P::Item: IntoIterator,
    {
        self.flatten()
    }

    /// rayon's `fold_with`: one clone of the initial accumulator per piece.
    pub fn fold_with<T: Clone, F>(self, init: T, fold_op: F) -> ParIter<VecP<T>>
    where
        F: Fn(T, P::Item) -> T,
    {
        self.eager("fold_with", |it| vec![it.fold(init.clone(), &fold_op)])
    }

    /// rayon's `try_fold` over `Result`: one accumulator per piece, a piece stops at its first error.
    pub fn try_fold<T, E, ID, F>(self, identity: ID, fold_op: F) -> ParIter<VecP<Result<T, E>>>
    where
        ID: Fn() -> T,
        F: Fn(T, P::Item) -> Result<T, E>,
    {
        self.eager("try_fold", |it| {
            let mut acc = identity();
            for x in it {
                match fold_op(acc, x) {
                    Ok(a) => acc = a,
                    Err(e) => return vec![Err(e)],
                }
            }
            vec![Ok(acc)]
        })
    }

    pub fn step_by(self, step: usize) -> ParIter<VecP<P::Item>> {
        assert!(step != 0);
        // positions are global: materialise in order, then keep every step-th element
        let all: Vec<P::Item> = Vec::from_pieces(run_pieces(self.0, "step_by", |piece| piece.into_seq().collect::<Vec<_>>()));
        ParIter(VecP { v: all.into_iter().step_by(step).collect() })
    }

    pub fn partition<F>(self, pred: F) -> (Vec<P::Item>, Vec<P::Item>)
    where
        F: Fn(&P::Item) -> bool,
    {
        let all: Vec<P::Item> = Vec::from_pieces(run_pieces(self.0, "partition", |piece| piece.into_seq().collect::<Vec<_>>()));
        all.into_iter().partition(|x| pred(x))
    }

    pub fn interleave<Z: IntoParallelIterator<Prod = Q>, Q: Producer<Item = P::Item>>(self, other: Z) -> ParIter<VecP<P::Item>> {
        let a: Vec<P::Item> = Vec::from_pieces(run_pieces(self.0, "interleave.a", |piece| piece.into_seq().collect::<Vec<_>>()));
        let b: Vec<P::Item> = Vec::from_pieces(run_pieces(other.into_par_iter().0, "interleave.b", |piece| piece.into_seq().collect::<Vec<_>>()));
        let (mut ia, mut ib) = (a.into_iter(), b.into_iter());
        let mut v = Vec::new();
        loop {
            match (ia.next(), ib.next()) {
                (None, None) => break,
                (x, y) => {
                    v.extend(x);
                    v.extend(y);
                }
            }
        }
        ParIter(VecP { v })
    }

    /// rayon's `fold`: one accumulator per piece.
    pub fn fold<T, ID, F>(self, identity: ID, fold_op: F) -> ParIter<VecP<T>>
    where
        ID: Fn() -> T,
        F: Fn(T, P::Item) -> T,
    {
        self.eager("fold", |it| vec![it.fold(identity(), &fold_op)])
    }

    pub fn map_with<T: Clone, F, R>(self, init: T, f: F) -> ParIter<VecP<R>>
    where
        F: Fn(&mut T, P::Item) -> R,
    {
        self.eager("map_with", |it| {
            let mut st = init.clone();
            it.map(|x| f(&mut st, x)).collect()
        })
    }

    pub fn map_init<T, INIT, F, R>(self, init: INIT, f: F) -> ParIter<VecP<R>>
    where
        INIT: Fn() -> T,
        F: Fn(&mut T, P::Item) -> R,
    {
        self.eager("map_init", |it| {
            let mut st = init();
            it.map(|x| f(&mut st, x)).collect()
        })
    }

    pub fn inspect<F>(self, f: F) -> ParIter<VecP<P::Item>>
    where
        F: Fn(&P::Item),
    {
        self.eager("inspect", |it| it.inspect(&f).collect())
    }

    pub fn update<F>(self, f: F) -> ParIter<VecP<P::Item>>
    where
        F: Fn(&mut P::Item),
    {
        self.eager("update", |it| {
            it.map(|mut x| {
                f(&mut x);
                x
            })
            .collect()
        })
    }

    pub fn chunks(self, size: usize) -> ParIter<VecP<Vec<P::Item>>> {
        assert!(size != 0, "chunk_size must not be zero");
        let all: Vec<P::Item> = self.collect();
        let mut out = Vec::new();
        let mut cur = Vec::with_capacity(size);
        for x in all {
            cur.push(x);
            if cur.len() == size {
                out.push(std::mem::replace(&mut cur, Vec::with_capacity(size)));
            }
        }
        if !cur.is_empty() {
            out.push(cur);
        }
        ParIter(VecP { v: out })
    }

    pub fn rev(self) -> ParIter<RevP<P>> {
        ParIter(RevP { base: self.0 })
    }

    pub fn skip(self, n: usize) -> ParIter<P> {
        let n = n.min(self.0.len());
        ParIter(self.0.split_at(n).1)
    }

    pub fn take(self, n: usize) -> ParIter<P> {
        let n = n.min(self.0.len());
        ParIter(self.0.split_at(n).0)
    }

    pub fn zip_eq<Z: IntoParallelIterator>(self, other: Z) -> ParIter<ZipP<P, Z::Prod>> {
        let o = other.into_par_iter();
        assert_eq!(self.0.len(), o.0.len(), "iterators must have the same length");
        ParIter(ZipP { a: self.0, b: o.0 })
    }

    pub fn chain<Z: IntoParallelIterator<Prod = Q>, Q: Producer<Item = P::Item>>(self, other: Z) -> ParIter<VecP<P::Item>> {
        let mut v: Vec<P::Item> = self.collect();
        let w: Vec<P::Item> = other.into_par_iter().collect();
        v.extend(w);
        ParIter(VecP { v })
    }

    pub fn len(&self) -> usize {
        self.0.len()
    }

    pub fn is_empty(&self) -> bool {
        self.0.len() == 0
    }

    pub fn with_min_len(self, _min: usize) -> Self {
        self
    }

    pub fn with_max_len(self, _max: usize) -> Self {
        self
    }

    pub fn for_each<F>(self, f: F)
    where
        F: Fn(P::Item),
    {
        run_pieces(self.0, "for_each", |piece| piece.into_seq().for_each(&f));
    }

    pub fn collect<C: FromParallelIterator<P::Item>>(self) -> C {
        let pieces = run_pieces(self.0, "collect", |piece| piece.into_seq().collect::<Vec<_>>());
        C::from_pieces(pieces)
    }

    pub fn sum<S>(self) -> S
    where
        S: Sum<P::Item> + Sum<S>,
    {
        let parts = run_pieces(self.0, "sum", |piece| piece.into_seq().sum::<S>());
        match reduce_tree(parts, |a, b| [a, b].into_iter().sum::<S>()) {
            Some(s) => s,
            None => std::iter::empty::<S>().sum(),
        }
    }

    pub fn reduce<OP, ID>(self, identity: ID, op: OP) -> P::Item
    where
        OP: Fn(P::Item, P::Item) -> P::Item,
        ID: Fn() -> P::Item,
    {
        let parts = run_pieces(self.0, "reduce", |piece| piece.into_seq().fold(identity(), &op));
        reduce_tree(parts, &op).unwrap_or_else(identity)
    }

    pub fn count(self) -> usize {
        run_pieces(self.0, "count", |piece| piece.into_seq().count()).into_iter().sum()
    }

    pub fn for_each_with<T: Clone, F>(self, init: T, f: F)
    where
        F: Fn(&mut T, P::Item),
    {
        run_pieces(self.0, "for_each_with", |piece| {
            let mut st = init.clone();
            piece.into_seq().for_each(|x| f(&mut st, x))
        });
    }

    pub fn for_each_init<T, INIT, F>(self, init: INIT, f: F)
    where
        INIT: Fn() -> T,
        F: Fn(&mut T, P::Item),
    {
        run_pieces(self.0, "for_each_init", |piece| {
            let mut st = init();
            piece.into_seq().for_each(|x| f(&mut st, x))
        });
    }

    pub fn try_for_each<F, E>(self, f: F) -> Result<(), E>
    where
        F: Fn(P::Item) -> Result<(), E>,
    {
        let mut first: Vec<(usize, E)> = Vec::new();
        let mut idx = 0usize;
        let res = run_pieces(self.0, "try_for_each", |piece| {
            let my = idx;
            idx += 1;
            for x in piece.into_seq() {
                if let Err(e) = f(x) {
                    return Some((my, e));
                }
            }
            None
        });
        for r in res.into_iter().flatten() {
            first.push(r);
        }
        // rayon returns *some* error; report the one of the leftmost piece (a stable choice)
        first.sort_by_key(|(i, _)| *i);
        match first.into_iter().next() {
            Some((_, e)) => Err(e),
            None => Ok(()),
        }
    }

    pub fn collect_into_vec(self, target: &mut Vec<P::Item>) {
        let v: Vec<P::Item> = self.collect();
        *target = v;
    }

    pub fn unzip<A, B>(self) -> (Vec<A>, Vec<B>)
    where
        P: Producer<Item = (A, B)>,
    {
        let v: Vec<(A, B)> = self.collect();
        v.into_iter().unzip()
    }

    pub fn find_first<F>(self, f: F) -> Option<P::Item>
    where
        F: Fn(&P::Item) -> bool,
    {
        let res = run_pieces(self.0, "find_first", |piece| piece.into_seq().find(|x| f(x)));
        res.into_iter().flatten().next()
    }

    /// `find_any` may return any match: the simulator picks among the pieces' first matches.
    pub fn find_any<F>(self, f: F) -> Option<P::Item>
    where
        F: Fn(&P::Item) -> bool,
    {
        let res = run_pieces(self.0, "find_any", |piece| piece.into_seq().find(|x| f(x)));
        let mut hits: Vec<P::Item> = res.into_iter().flatten().collect();
        if hits.is_empty() {
            return None;
        }
        let k = sim::decide_merge(hits.len() + 1) % hits.len();
        Some(hits.swap_remove(k))
    }

    pub fn position_first<F>(self, f: F) -> Option<usize>
    where
        F: Fn(P::Item) -> bool,
    {
        let v: Vec<P::Item> = self.collect();
        v.into_iter().position(f)
    }

    pub fn position_any<F>(self, f: F) -> Option<usize>
    where
        F: Fn(P::Item) -> bool,
    {
        self.position_first(f)
    }

    pub fn min_by<F>(self, f: F) -> Option<P::Item>
    where
        F: Fn(&P::Item, &P::Item) -> std::cmp::Ordering,
    {
        let v: Vec<P::Item> = self.collect();
        v.into_iter().min_by(|a, b| f(a, b))
    }

    pub fn max_by<F>(self, f: F) -> Option<P::Item>
    where
        F: Fn(&P::Item, &P::Item) -> std::cmp::Ordering,
    {
        let v: Vec<P::Item> = self.collect();
        v.into_iter().max_by(|a, b| f(a, b))
    }

    pub fn min(self) -> Option<P::Item>
    where
        P::Item: Ord,
    {
        self.min_by(|a, b| a.cmp(b))
    }

    pub fn max(self) -> Option<P::Item>
    where
        P::Item: Ord,
    {
        self.max_by(|a, b| a.cmp(b))
    }

    pub fn min_by_key<K: Ord, F>(self, f: F) -> Option<P::Item>
    where
        F: Fn(&P::Item) -> K,
    {
        self.min_by(|a, b| f(a).cmp(&f(b)))
    }

    pub fn max_by_key<K: Ord, F>(self, f: F) -> Option<P::Item>
    where
        F: Fn(&P::Item) -> K,
    {
        self.max_by(|a, b| f(a).cmp(&f(b)))
    }

    pub fn product<S>(self) -> S
    where
        S: std::iter::Product<P::Item> + std::iter::Product<S>,
    {
        let parts = run_pieces(self.0, "product", |piece| piece.into_seq().product::<S>());
        match reduce_tree(parts, |a, b| [a, b].into_iter().product::<S>()) {
            Some(s) => s,
            None => std::iter::empty::<S>().product(),
        }
    }

    pub fn reduce_with<OP>(self, op: OP) -> Option<P::Item>
    where
        OP: Fn(P::Item, P::Item) -> P::Item,
    {
        let parts = run_pieces(self.0, "reduce_with", |piece| piece.into_seq().reduce(&op));
        reduce_tree(parts.into_iter().flatten().collect(), &op)
    }

    pub fn all<F>(self, f: F) -> bool
    where
        F: Fn(P::Item) -> bool,
    {
        let mut verdict = true;
        run_pieces(self.0, "all", |piece| {
            if !verdict && !sim::decide_continue() {
                return;
            }
            for x in piece.into_seq() {
                if !f(x) {
                    verdict = false;
                    break;
                }
            }
        });
        verdict
    }

    pub fn any<F>(self, f: F) -> bool
    where
        F: Fn(P::Item) -> bool,
    {
        !self.all(|x| !f(x))
    }
}

impl<'a, T: 'a + Clone, P: Producer<Item = &'a T>> ParIter<P> {
    pub fn cloned(self) -> ParIter<MapP<P, fn(&'a T) -> T>> {
        fn c<T: Clone>(x: &T) -> T {
            x.clone()
        }
        ParIter(MapP { base: self.0, f: Rc::new(c::<T> as fn(&'a T) -> T) })
    }

    pub fn copied(self) -> ParIter<MapP<P, fn(&'a T) -> T>> {
        self.cloned()
    }
}

// ---------------------------------------------------------------- producers

#[derive(Clone)]
pub struct RangeP {
    r: Range<usize>,
}

impl Producer for RangeP {
    type Item = usize;
    type IntoIter = Range<usize>;
    fn len(&self) -> usize {
        self.r.len()
    }
    fn split_at(self, index: usize) -> (Self, Self) {
        let mid = self.r.start + index;
        (RangeP { r: self.r.start..mid }, RangeP { r: mid..self.r.end })
    }
    fn into_seq(self) -> Self::IntoIter {
        self.r
    }
    fn describe(&self) -> String {
        "range".into()
    }
}

pub struct SliceP<'a, T> {
    pub(crate) s: &'a [T],
}

impl<'a, T> Clone for SliceP<'a, T> {
    fn clone(&self) -> Self {
        SliceP { s: self.s }
    }
}

impl<'a, T> Producer for SliceP<'a, T> {
    type Item = &'a T;
    type IntoIter = std::slice::Iter<'a, T>;
    fn len(&self) -> usize {
        self.s.len()
    }
    fn split_at(self, index: usize) -> (Self, Self) {
        let (a, b) = self.s.split_at(index);
        (SliceP { s: a }, SliceP { s: b })
    }
    fn into_seq(self) -> Self::IntoIter {
        self.s.iter()
    }
    fn describe(&self) -> String {
        "slice".into()
    }
}

pub struct SliceMutP<'a, T> {
    pub(crate) s: &'a mut [T],
}

impl<'a, T> Producer for SliceMutP<'a, T> {
    type Item = &'a mut T;
    type IntoIter = std::slice::IterMut<'a, T>;
    fn len(&self) -> usize {
        self.s.len()
    }
    fn split_at(self, index: usize) -> (Self, Self) {
        let (a, b) = self.s.split_at_mut(index);
        (SliceMutP { s: a }, SliceMutP { s: b })
    }
    fn into_seq(self) -> Self::IntoIter {
        self.s.iter_mut()
    }
    fn describe(&self) -> String {
        "slice_mut".into()
    }
}

pub struct ChunksP<'a, T> {
    pub(crate) s: &'a [T],
    pub(crate) size: usize,
}

impl<'a, T> Producer for ChunksP<'a, T> {
    type Item = &'a [T];
    type IntoIter = std::slice::Chunks<'a, T>;
    fn len(&self) -> usize {
        self.s.len().div_ceil(self.size)
    }
    fn split_at(self, index: usize) -> (Self, Self) {
        let at = (index * self.size).min(self.s.len());
        let (a, b) = self.s.split_at(at);
        (ChunksP { s: a, size: self.size }, ChunksP { s: b, size: self.size })
    }
    fn into_seq(self) -> Self::IntoIter {
        self.s.chunks(self.size)
    }
    fn describe(&self) -> String {
        "chunks".into()
    }
}

pub struct ChunksMutP<'a, T> {
    pub(crate) s: &'a mut [T],
    pub(crate) size: usize,
}

impl<'a, T> Producer for ChunksMutP<'a, T> {
    type Item = &'a mut [T];
    type IntoIter = std::slice::ChunksMut<'a, T>;
    fn len(&self) -> usize {
        self.s.len().div_ceil(self.size)
    }
    fn split_at(self, index: usize) -> (Self, Self) {
        let at = (index * self.size).min(self.s.len());
        let (a, b) = self.s.split_at_mut(at);
        (ChunksMutP { s: a, size: self.size }, ChunksMutP { s: b, size: self.size })
    }
    fn into_seq(self) -> Self::IntoIter {
        self.s.chunks_mut(self.size)
    }
    fn describe(&self) -> String {
        "chunks_mut".into()
    }
}

pub struct VecP<T> {
    v: Vec<T>,
}

impl<T> Producer for VecP<T> {
    type Item = T;
    type IntoIter = std::vec::IntoIter<T>;
    fn len(&self) -> usize {
        self.v.len()
    }
    fn split_at(mut self, index: usize) -> (Self, Self) {
        let tail = self.v.split_off(index);
        (self, VecP { v: tail })
    }
    fn into_seq(self) -> Self::IntoIter {
        self.v.into_iter()
    }
    fn describe(&self) -> String {
        "vec".into()
    }
}

pub struct ZipP<A, B> {
    a: A,
    b: B,
}

impl<A: Producer, B: Producer> Producer for ZipP<A, B> {
    type Item = (A::Item, B::Item);
    type IntoIter = std::iter::Zip<A::IntoIter, B::IntoIter>;
    fn len(&self) -> usize {
        self.a.len().min(self.b.len())
    }
    fn split_at(self, index: usize) -> (Self, Self) {
        let (a1, a2) = self.a.split_at(index);
        let (b1, b2) = self.b.split_at(index);
        (ZipP { a: a1, b: b1 }, ZipP { a: a2, b: b2 })
    }
    fn into_seq(self) -> Self::IntoIter {
        self.a.into_seq().zip(self.b.into_seq())
    }
    fn describe(&self) -> String {
        format!("zip({},{})", self.a.describe(), self.b.describe())
    }
}

pub struct MapP<P, F> {
    base: P,
    f: Rc<F>,
}

impl<P: Clone, F> Clone for MapP<P, F> {
    fn clone(&self) -> Self {
        MapP { base: self.base.clone(), f: self.f.clone() }
    }
}

pub struct MapIter<I, F> {
    it: I,
    f: Rc<F>,
}

impl<I: Iterator, R, F: Fn(I::Item) -> R> Iterator for MapIter<I, F> {
    type Item = R;
    fn next(&mut self) -> Option<R> {
        self.it.next().map(|x| (self.f)(x))
    }
    fn size_hint(&self) -> (usize, Option<usize>) {
        self.it.size_hint()
    }
}

impl<P: Producer, R, F: Fn(P::Item) -> R> Producer for MapP<P, F> {
    type Item = R;
    type IntoIter = MapIter<P::IntoIter, F>;
    fn len(&self) -> usize {
        self.base.len()
    }
    fn split_at(self, index: usize) -> (Self, Self) {
        let (a, b) = self.base.split_at(index);
        (MapP { base: a, f: self.f.clone() }, MapP { base: b, f: self.f })
    }
    fn into_seq(self) -> Self::IntoIter {
        MapIter { it: self.base.into_seq(), f: self.f }
    }
    fn describe(&self) -> String {
        format!("map({})", self.base.describe())
    }
}

pub struct EnumP<P> {
    base: P,
    offset: usize,
}

pub struct EnumIter<I> {
    it: I,
    i: usize,
}

impl<I: Iterator> Iterator for EnumIter<I> {
    type Item = (usize, I::Item);
    fn next(&mut self) -> Option<Self::Item> {
        let x = self.it.next()?;
        let i = self.i;
        self.i += 1;
        Some((i, x))
    }
}

impl<P: Producer> Producer for EnumP<P> {
    type Item = (usize, P::Item);
    type IntoIter = EnumIter<P::IntoIter>;
    fn len(&self) -> usize {
        self.base.len()
    }
    fn split_at(self, index: usize) -> (Self, Self) {
        let (a, b) = self.base.split_at(index);
        (EnumP { base: a, offset: self.offset }, EnumP { base: b, offset: self.offset + index })
    }
    fn into_seq(self) -> Self::IntoIter {
        EnumIter { it: self.base.into_seq(), i: self.offset }
    }
    fn describe(&self) -> String {
        format!("enumerate({})", self.base.describe())
    }
}

pub struct RevP<P> {
    base: P,
}

impl<P: Producer> Producer for RevP<P> {
    type Item = P::Item;
    type IntoIter = std::iter::Rev<std::vec::IntoIter<P::Item>>;
    fn len(&self) -> usize {
        self.base.len()
    }
    fn split_at(self, index: usize) -> (Self, Self) {
        let n = self.base.len();
        let (l, r) = self.base.split_at(n - index);
        (RevP { base: r }, RevP { base: l })
    }
    fn into_seq(self) -> Self::IntoIter {
        self.base.into_seq().collect::<Vec<_>>().into_iter().rev()
    }
    fn describe(&self) -> String {
        format!("rev({})", self.base.describe())
    }
}

pub struct WindowsP<'a, T> {
    pub(crate) s: &'a [T],
    pub(crate) size: usize,
}

impl<'a, T> Producer for WindowsP<'a, T> {
    type Item = &'a [T];
    type IntoIter = std::slice::Windows<'a, T>;
    fn len(&self) -> usize {
        (self.s.len() + 1).saturating_sub(self.size)
    }
    fn split_at(self, index: usize) -> (Self, Self) {
        let left_end = (index + self.size - 1).min(self.s.len());
        (WindowsP { s: &self.s[..left_end], size: self.size }, WindowsP { s: &self.s[index.min(self.s.len())..], size: self.size })
    }
    fn into_seq(self) -> Self::IntoIter {
        self.s.windows(self.size)
    }
    fn describe(&self) -> String {
        "windows".into()
    }
}

pub struct ChunksExactP<'a, T> {
    pub(crate) s: &'a [T],
    pub(crate) size: usize,
}

impl<'a, T> Producer for ChunksExactP<'a, T> {
    type Item = &'a [T];
    type IntoIter = std::slice::ChunksExact<'a, T>;
    fn len(&self) -> usize {
        self.s.len() / self.size
    }
    fn split_at(self, index: usize) -> (Self, Self) {
        let (a, b) = self.s.split_at(index * self.size);
        (ChunksExactP { s: a, size: self.size }, ChunksExactP { s: b, size: self.size })
    }
    fn into_seq(self) -> Self::IntoIter {
        self.s.chunks_exact(self.size)
    }
    fn describe(&self) -> String {
        "chunks_exact".into()
    }
}

pub struct ChunksExactMutP<'a, T> {
    pub(crate) s: &'a mut [T],
    pub(crate) size: usize,
}

impl<'a, T> Producer for ChunksExactMutP<'a, T> {
    type Item = &'a mut [T];
    type IntoIter = std::slice::ChunksExactMut<'a, T>;
    fn len(&self) -> usize {
        self.s.len() / self.size
    }
    fn split_at(self, index: usize) -> (Self, Self) {
        let (a, b) = self.s.split_at_mut(index * self.size);
        (ChunksExactMutP { s: a, size: self.size }, ChunksExactMutP { s: b, size: self.size })
    }
    fn into_seq(self) -> Self::IntoIter {
        self.s.chunks_exact_mut(self.size)
    }
    fn describe(&self) -> String {
        "chunks_exact_mut".into()
    }
}

/// Marker traits so that `use rayon::iter::ParallelIterator` and generic bounds keep compiling.
pub trait ParallelIterator {
    type Item;
}

impl<P: Producer> ParallelIterator for ParIter<P> {
    type Item = P::Item;
}

pub trait IndexedParallelIterator: ParallelIterator {}

impl<P: Producer> IndexedParallelIterator for ParIter<P> {}

pub trait ParallelBridge: Sized {
    type Item;
    fn par_bridge(self) -> ParIter<VecP<Self::Item>>;
}

impl<I: Iterator> ParallelBridge for I {
    type Item = I::Item;
    fn par_bridge(self) -> ParIter<VecP<I::Item>> {
        let items: Vec<I::Item> = self.collect();
        let order = crate::sim::decide_bridge_order(items.len());
        let mut slots: Vec<Option<I::Item>> = items.into_iter().map(Some).collect();
        let v = order.into_iter().map(|i| slots[i].take().expect("a permutation")).collect();
        ParIter(VecP { v })
    }
}

pub trait ParallelExtend<T> {
    fn par_extend<I: IntoParallelIterator>(&mut self, par_iter: I)
    where
        I::Prod: Producer<Item = T>;
}

impl<T> ParallelExtend<T> for Vec<T> {
    fn par_extend<I: IntoParallelIterator>(&mut self, par_iter: I)
    where
        I::Prod: Producer<Item = T>,
    {
        let v: Vec<T> = par_iter.into_par_iter().collect();
        self.extend(v);
    }
}

macro_rules! range_impl {
    ($($t:ty),*) => {$(
        impl IntoParallelIterator for Range<$t> {
            type Prod = VecP<$t>;
            fn into_par_iter(self) -> ParIter<VecP<$t>> {
                ParIter(VecP { v: self.collect() })
            }
        }
        impl IntoParallelIterator for std::ops::RangeInclusive<$t> {
            type Prod = VecP<$t>;
            fn into_par_iter(self) -> ParIter<VecP<$t>> {
                ParIter(VecP { v: self.collect() })
            }
        }
    )*};
}
range_impl!(u8, u16, u32, u64, i8, i16, i32, i64, isize);

impl IntoParallelIterator for std::ops::RangeInclusive<usize> {
    type Prod = RangeP;
    fn into_par_iter(self) -> ParIter<RangeP> {
        let (a, b) = self.into_inner();
        ParIter(RangeP { r: a..b.saturating_add(1) })
    }
}

impl<T, const N: usize> IntoParallelIterator for [T; N] {
    type Prod = VecP<T>;
    fn into_par_iter(self) -> ParIter<VecP<T>> {
        ParIter(VecP { v: self.into_iter().collect() })
    }
}

impl<'a, T, const N: usize> IntoParallelIterator for &'a mut [T; N] {
    type Prod = SliceMutP<'a, T>;
    fn into_par_iter(self) -> ParIter<SliceMutP<'a, T>> {
        ParIter(SliceMutP { s: &mut self[..] })
    }
}

impl<T> IntoParallelIterator for Option<T> {
    type Prod = VecP<T>;
    fn into_par_iter(self) -> ParIter<VecP<T>> {
        ParIter(VecP { v: self.into_iter().collect() })
    }
}

impl<K, V, S> IntoParallelIterator for std::collections::HashMap<K, V, S> {
    type Prod = VecP<(K, V)>;
    fn into_par_iter(self) -> ParIter<VecP<(K, V)>> {
        ParIter(VecP { v: self.into_iter().collect() })
    }
}

impl<'a, K, V, S> IntoParallelIterator for &'a std::collections::HashMap<K, V, S> {
    type Prod = VecP<(&'a K, &'a V)>;
    fn into_par_iter(self) -> ParIter<VecP<(&'a K, &'a V)>> {
        ParIter(VecP { v: self.iter().collect() })
    }
}

impl<K, V> IntoParallelIterator for std::collections::BTreeMap<K, V> {
    type Prod = VecP<(K, V)>;
    fn into_par_iter(self) -> ParIter<VecP<(K, V)>> {
        ParIter(VecP { v: self.into_iter().collect() })
    }
}

impl<'a, K, V> IntoParallelIterator for &'a std::collections::BTreeMap<K, V> {
    type Prod = VecP<(&'a K, &'a V)>;
    fn into_par_iter(self) -> ParIter<VecP<(&'a K, &'a V)>> {
        ParIter(VecP { v: self.iter().collect() })
    }
}

impl<'a, K: 'a, V: 'a, S: 'a> IntoParallelRefIterator<'a> for std::collections::HashMap<K, V, S> {
    type Prod = VecP<(&'a K, &'a V)>;
    fn par_iter(&'a self) -> ParIter<VecP<(&'a K, &'a V)>> {
        ParIter(VecP { v: self.iter().collect() })
    }
}

impl<'a, K: 'a, V: 'a> IntoParallelRefIterator<'a> for std::collections::BTreeMap<K, V> {
    type Prod = VecP<(&'a K, &'a V)>;
    fn par_iter(&'a self) -> ParIter<VecP<(&'a K, &'a V)>> {
        ParIter(VecP { v: self.iter().collect() })
    }
}

impl<P, T, E> ParIter<P>
where
    P: Producer<Item = Result<T, E>>,
{
    /// rayon's `try_reduce` over `Result`: pieces fold left to right and stop at their first
    /// error; the error of the leftmost failing piece is reported (a stable choice).
    pub fn try_reduce<ID, OP>(self, identity: ID, op: OP) -> Result<T, E>
    where
        ID: Fn() -> T,
        OP: Fn(T, T) -> Result<T, E>,
    {
        let parts = run_pieces(self.0, "try_reduce", |piece| {
            let mut acc = identity();
            for x in piece.into_seq() {
                acc = op(acc, x?)?;
            }
            Ok::<T, E>(acc)
        });
        let mut acc = identity();
        for p in parts {
            acc = op(acc, p?)?;
        }
        Ok(acc)
    }
}

// ------------------------------------------------------------ entry traits

pub trait IntoParallelIterator {
    type Prod: Producer;
    fn into_par_iter(self) -> ParIter<Self::Prod>;
}

impl<P: Producer> IntoParallelIterator for ParIter<P> {
    type Prod = P;
    fn into_par_iter(self) -> ParIter<P> {
        self
    }
}

impl IntoParallelIterator for Range<usize> {
    type Prod = RangeP;
    fn into_par_iter(self) -> ParIter<RangeP> {
        ParIter(RangeP { r: self })
    }
}

impl<T> IntoParallelIterator for Vec<T> {
    type Prod = VecP<T>;
    fn into_par_iter(self) -> ParIter<VecP<T>> {
        ParIter(VecP { v: self })
    }
}

impl<'a, T> IntoParallelIterator for &'a [T] {
    type Prod = SliceP<'a, T>;
    fn into_par_iter(self) -> ParIter<SliceP<'a, T>> {
        ParIter(SliceP { s: self })
    }
}

impl<'a, T> IntoParallelIterator for &'a Vec<T> {
    type Prod = SliceP<'a, T>;
    fn into_par_iter(self) -> ParIter<SliceP<'a, T>> {
        ParIter(SliceP { s: self.as_slice() })
    }
}

impl<'a, T, const N: usize> IntoParallelIterator for &'a [T; N] {
    type Prod = SliceP<'a, T>;
    fn into_par_iter(self) -> ParIter<SliceP<'a, T>> {
        ParIter(SliceP { s: &self[..] })
    }
}

impl<'a, T> IntoParallelIterator for &'a mut [T] {
    type Prod = SliceMutP<'a, T>;
    fn into_par_iter(self) -> ParIter<SliceMutP<'a, T>> {
        ParIter(SliceMutP { s: self })
    }
}

impl<'a, T> IntoParallelIterator for &'a mut Vec<T> {
    type Prod = SliceMutP<'a, T>;
    fn into_par_iter(self) -> ParIter<SliceMutP<'a, T>> {
        ParIter(SliceMutP { s: self.as_mut_slice() })
    }
}

pub trait IntoParallelRefIterator<'a> {
    type Prod: Producer;
    fn par_iter(&'a self) -> ParIter<Self::Prod>;
}

impl<'a, T: 'a> IntoParallelRefIterator<'a> for [T] {
    type Prod = SliceP<'a, T>;
    fn par_iter(&'a self) -> ParIter<SliceP<'a, T>> {
        ParIter(SliceP { s: self })
    }
}

impl<'a, T: 'a> IntoParallelRefIterator<'a> for Vec<T> {
    type Prod = SliceP<'a, T>;
    fn par_iter(&'a self) -> ParIter<SliceP<'a, T>> {
        ParIter(SliceP { s: self.as_slice() })
    }
}

impl<'a, T: 'a, const N: usize> IntoParallelRefIterator<'a> for [T; N] {
    type Prod = SliceP<'a, T>;
    fn par_iter(&'a self) -> ParIter<SliceP<'a, T>> {
        ParIter(SliceP { s: &self[..] })
    }
}

pub trait IntoParallelRefMutIterator<'a> {
    type Prod: Producer;
    fn par_iter_mut(&'a mut self) -> ParIter<Self::Prod>;
}

impl<'a, T: 'a> IntoParallelRefMutIterator<'a> for [T] {
    type Prod = SliceMutP<'a, T>;
    fn par_iter_mut(&'a mut self) -> ParIter<SliceMutP<'a, T>> {
        ParIter(SliceMutP { s: self })
    }
}

impl<'a, T: 'a> IntoParallelRefMutIterator<'a> for Vec<T> {
    type Prod = SliceMutP<'a, T>;
    fn par_iter_mut(&'a mut self) -> ParIter<SliceMutP<'a, T>> {
        ParIter(SliceMutP { s: self.as_mut_slice() })
    }
}

impl<'a, T: 'a, const N: usize> IntoParallelRefMutIterator<'a> for [T; N] {
    type Prod = SliceMutP<'a, T>;
    fn par_iter_mut(&'a mut self) -> ParIter<SliceMutP<'a, T>> {
        ParIter(SliceMutP { s: &mut self[..] })
    }
}

#!/bin/bash
# run every claimed check at one tier; print a one-line summary per check
tier=${1:-quick}
cd "$(dirname "$0")/.."; mkdir -p out
for p in C01 C02 C03 C04 C05 C06 C07 C15 C16 C17 C18 C19; do
  s=$(date +%s)
  ./check $p --tier $tier > out/runall-$p.log 2>&1
  rc=$?
  e=$(date +%s)
  echo "$p exit=$rc wall=$((e-s))s viol=$(grep -c '^VIOLATION' out/runall-$p.log) known=$(grep -c '^KNOWN-FINDING' out/runall-$p.log)"
done

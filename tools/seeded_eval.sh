#!/bin/bash
# Evaluate kept seeded changes against the checks without touching /repo or /verif's evidence:
# a copy of /verif (/tmp/verif-seeded$slot) runs against a scratch worktree of /repo (/tmp/seeded-repo$slot).
#   tools/seeded_eval.sh <seeded-id> [<check> ...]     (results are copied back to /verif/seeded/<id>/)
set -u
id=$1; shift
slot=${SEEDED_SLOT:-}
mkdir -p /tmp/verif-seeded$slot
rsync -a --delete --exclude target --exclude out --exclude .git --exclude replay /verif/ /tmp/verif-seeded$slot/
if [ ! -d /tmp/seeded-repo$slot ]; then git -C /repo worktree add --detach /tmp/seeded-repo$slot HEAD >/dev/null 2>&1; fi
git -C /tmp/seeded-repo$slot checkout -q --detach "$(git -C /repo rev-parse HEAD)" && git -C /tmp/seeded-repo$slot checkout -- . && git -C /tmp/seeded-repo$slot clean -fdq src
VERIF_REPO=/tmp/seeded-repo$slot python3 /tmp/verif-seeded$slot/tools/seeded.py run "$id" "$@"
cp /tmp/verif-seeded$slot/seeded/$id/* /verif/seeded/$id/

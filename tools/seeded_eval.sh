#!/bin/bash
# Evaluate kept seeded changes against the checks without touching /repo or /verif's evidence:
# a copy of /verif (/tmp/verif-seeded) runs against a scratch worktree of /repo (/tmp/seeded-repo).
#   tools/seeded_eval.sh <seeded-id> [<check> ...]     (results are copied back to /verif/seeded/<id>/)
set -u
id=$1; shift
mkdir -p /tmp/verif-seeded
rsync -a --delete --exclude target --exclude out --exclude .git --exclude replay /verif/ /tmp/verif-seeded/
if [ ! -d /tmp/seeded-repo ]; then git -C /repo worktree add --detach /tmp/seeded-repo HEAD >/dev/null 2>&1; fi
git -C /tmp/seeded-repo checkout -q --detach "$(git -C /repo rev-parse HEAD)" && git -C /tmp/seeded-repo checkout -- . && git -C /tmp/seeded-repo clean -fdq src
VERIF_REPO=/tmp/seeded-repo python3 /tmp/verif-seeded/tools/seeded.py run "$id" "$@"
cp /tmp/verif-seeded/seeded/$id/* /verif/seeded/$id/

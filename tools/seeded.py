#!/usr/bin/env python3
"""Seeded-change workflow.

  seeded.py confirm <dir-with-patch.diff+demo> <id> <property>   confirm a change in a scratch worktree and keep it under /verif/seeded/<id>/
  seeded.py run <id> [<check> ...]                               apply it to /repo, run checks, undo, record who catches it
  seeded.py runall [<check> ...]                                 the same for every kept change (serially)

A change is kept only after: the demonstration passes on the clean tree, fails with the
change, and the repository's whole test suite still passes with the change.
"""
import json
import os
import shutil
import subprocess
import sys
import time

VERIF = os.path.dirname(os.path.dirname(os.path.abspath(__file__)))
REPO = os.environ.get("VERIF_REPO", "/repo")
SEEDED = os.path.join(VERIF, "seeded")
TARGET = os.environ.get("SEEDED_TARGET", "/tmp/seeded-target")


def sh(cmd, cwd=None, env=None, timeout=None):
    p = subprocess.run(cmd, cwd=cwd, env=env, shell=isinstance(cmd, str), stdout=subprocess.PIPE, stderr=subprocess.STDOUT, text=True, timeout=timeout)
    return p.returncode, p.stdout


def apply_patch(tree, patch):
    rc, out = sh(["git", "apply", "--whitespace=nowarn", patch], cwd=tree)
    if rc != 0:
        rc, out = sh(["git", "apply", "--3way", "--whitespace=nowarn", patch], cwd=tree)
    return rc, out


def parse_tests(out):
    passed = failed = 0
    for line in out.splitlines():
        if line.startswith("test result:"):
            parts = line.split()
            passed += int(parts[3])
            failed += int(parts[5])
    return passed, failed


def confirm(src, sid, prop):
    wt = f"/tmp/confirm-{sid}"
    sh(["git", "worktree", "remove", "--force", wt], cwd=REPO)
    rc, out = sh(["git", "worktree", "add", "--detach", wt, "HEAD"], cwd=REPO)
    if rc != 0:
        print(out)
        return 2
    env = dict(os.environ, CARGO_TARGET_DIR=TARGET, CARGO_NET_OFFLINE="true")
    meta = {"id": sid, "property": prop, "source": src, "confirmed_at": time.strftime("%Y-%m-%dT%H:%M:%S"), "ran": []}
    try:
        patch = os.path.join(src, "patch.diff")
        demo = None
        for cand in ("demo.rs", "demo_test.rs", "demo_example.rs"):
            if os.path.exists(os.path.join(src, cand)):
                demo = os.path.join(src, cand)
        if not demo:
            print("no demo file found in", src, os.listdir(src))
            return 2
        demo_name = f"seeded_demo_{sid.replace('-', '_').lower()}"
        shutil.copy(demo, os.path.join(wt, "tests", demo_name + ".rs"))
        extra = ""
        notes = open(os.path.join(src, "notes.md")).read() if os.path.exists(os.path.join(src, "notes.md")) else ""
        if "dusk_plonk_verif" in open(demo).read() or "verif::" in open(demo).read():
            env["RUSTFLAGS"] = "--cfg dusk_plonk_verif"
            extra = " (RUSTFLAGS=--cfg dusk_plonk_verif)"
        # 1. demonstration on the clean tree
        cmd = ["cargo", "test", "--release", "--offline", "--test", demo_name]
        rc0, out0 = sh(cmd, cwd=wt, env=env, timeout=3600)
        p0, f0 = parse_tests(out0)
        meta["ran"].append({"cmd": " ".join(cmd) + extra + "   # clean tree", "exit": rc0, "passed": p0, "failed": f0})
        if rc0 != 0:
            print("demo does not pass on the clean tree:\n", out0[-3000:])
            meta["kept"] = False
            return 1
        # 2. with the change
        rc, out = apply_patch(wt, patch)
        if rc != 0:
            print("patch does not apply:\n", out)
            return 1
        rc1, out1 = sh(cmd, cwd=wt, env=env, timeout=3600)
        p1, f1 = parse_tests(out1)
        meta["ran"].append({"cmd": " ".join(cmd) + extra + "   # with the change", "exit": rc1, "passed": p1, "failed": f1})
        if rc1 == 0:
            print("demo still passes with the change")
            meta["kept"] = False
            return 1
        # 3. the whole existing suite with the change (demo excluded)
        os.remove(os.path.join(wt, "tests", demo_name + ".rs"))
        env2 = dict(env)
        env2.pop("RUSTFLAGS", None)
        cmd2 = ["cargo", "test", "--release", "--offline", "--workspace", "--no-fail-fast"]
        rc2, out2 = sh(cmd2, cwd=wt, env=env2, timeout=7200)
        p2, f2 = parse_tests(out2)
        meta["ran"].append({"cmd": " ".join(cmd2) + "   # existing suite with the change", "exit": rc2, "passed": p2, "failed": f2})
        if rc2 != 0 or f2 != 0 or p2 < 176:
            print(f"existing suite does not pass with the change: passed={p2} failed={f2}\n", out2[-3000:])
            meta["kept"] = False
            return 1
        # keep it: regenerate the patch against the current HEAD
        rc, diff = sh(["git", "diff", "--", "src", "Cargo.toml"], cwd=wt)
        dst = os.path.join(SEEDED, sid)
        os.makedirs(dst, exist_ok=True)
        open(os.path.join(dst, "patch.diff"), "w").write(diff)
        shutil.copy(demo, os.path.join(dst, "demo.rs"))
        if notes:
            open(os.path.join(dst, "notes.md"), "w").write(notes)
        meta["kept"] = True
        meta["breaks"] = prop
        meta["needs_to_manifest"] = "see notes.md"
        meta["demo_with_change"] = f"fails ({f1} failed)"
        meta["demo_without_change"] = f"passes ({p0} passed)"
        meta["suite_with_change"] = f"{p2} passed, {f2} failed"
        json.dump(meta, open(os.path.join(dst, "meta.json"), "w"), indent=1)
        print(f"kept {sid}: demo clean {p0} pass; with change {f1} fail; suite {p2} pass")
        return 0
    finally:
        sh(["git", "worktree", "remove", "--force", wt], cwd=REPO)


def run(sid, checks):
    dst = os.path.join(SEEDED, sid)
    meta = json.load(open(os.path.join(dst, "meta.json")))
    rc, st = sh(["git", "status", "--porcelain"], cwd=REPO)
    if st.strip():
        print("/repo is not clean:", st)
        return 2
    checks = checks or [meta["breaks"]]
    results = meta.get("checks", {})
    rc, out = apply_patch(REPO, os.path.join(dst, "patch.diff"))
    if rc != 0:
        print("patch does not apply to /repo:", out)
        return 2
    try:
        for c in checks:
            t0 = time.time()
            rc, out = sh([os.path.join(VERIF, "check"), c, "--tier", "quick"], cwd=VERIF, timeout=7200)
            viol = [l for l in out.splitlines() if l.startswith("VIOLATION")]
            detail = [l for l in out.splitlines() if l.startswith("  invariant=")]
            results[c] = {"exit": rc, "violations": len(viol), "first": (detail[0][:300] if detail else ""), "wall_s": round(time.time() - t0, 1)}
            if rc not in (0, 1):
                results[c]["output_tail"] = out[-1500:]
                print(out[-1500:])
            print(f"[{sid}] check {c}: exit={rc} violations={len(viol)} {detail[0][:200] if detail else ''}")
            # keep one replay file as a sample
            if viol:
                path = viol[0].split("replay=")[1].strip()
                if os.path.exists(path):
                    shutil.copy(path, os.path.join(dst, f"replay-{c}.json"))
    finally:
        sh(["git", "checkout", "--", "."], cwd=REPO)
        sh(["git", "clean", "-fd", "src"], cwd=REPO)
    meta["checks"] = results
    # the first result ever recorded for a check is kept separately (what the checks did before any strengthening)
    if "round1_checks" not in meta:  # (rounds 1 and 2 recorded their first results under that name)
        first = meta.setdefault("first_try_checks", {})
        for c in checks:
            first.setdefault(c, dict(results[c]))
    meta["detected_by"] = sorted(c for c, r in results.items() if r["exit"] == 1)
    json.dump(meta, open(os.path.join(dst, "meta.json"), "w"), indent=1)
    return 0


def main():
    if len(sys.argv) < 2:
        print(__doc__)
        return 2
    if sys.argv[1] == "confirm":
        return confirm(sys.argv[2], sys.argv[3], sys.argv[4])
    if sys.argv[1] == "run":
        return run(sys.argv[2], sys.argv[3:])
    if sys.argv[1] == "runall":
        for sid in sorted(os.listdir(SEEDED)):
            if os.path.exists(os.path.join(SEEDED, sid, "meta.json")):
                run(sid, sys.argv[2:])
        return 0
    return 2


if __name__ == "__main__":
    sys.exit(main())

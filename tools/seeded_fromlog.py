#!/usr/bin/env python3
"""Copy results of `seeded.py run` (its stdout log, produced in an evaluation copy of /verif) into
/verif/seeded/<id>/meta.json.  usage: seeded_fromlog.py <log> <field: checks|round1_checks> <verif commit>"""
import json, os, re, sys
VERIF = os.path.dirname(os.path.dirname(os.path.abspath(__file__)))
log, field, commit = sys.argv[1], sys.argv[2], sys.argv[3]
pat = re.compile(r"^\[(C\d\d-\d+)\] check (C\d\d): exit=(\d+) violations=(\d+)\s*(.*)$")
for line in open(log):
    m = pat.match(line.rstrip("\n"))
    if not m:
        continue
    sid, chk, rc, nv, first = m.group(1), m.group(2), int(m.group(3)), int(m.group(4)), m.group(5).strip()
    mp = os.path.join(VERIF, "seeded", sid, "meta.json")
    meta = json.load(open(mp))
    d = meta.get(field) or {}
    d[chk] = {"exit": rc, "violations": nv, "first": first, "verif_commit": commit}
    meta[field] = d
    key = "detected_by" if field == "checks" else "round1_detected_by"
    meta[key] = sorted(c for c, r in d.items() if r["exit"] == 1)
    json.dump(meta, open(mp, "w"), indent=1)
    print(sid, chk, rc)

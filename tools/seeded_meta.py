#!/usr/bin/env python3
"""Fill the descriptive fields of /verif/seeded/<id>/meta.json and print the DESIGN.md table."""
import json
import os
import sys

VERIF = os.path.dirname(os.path.dirname(os.path.abspath(__file__)))
SEEDED = os.path.join(VERIF, "seeded")

DESC = {
    "C01-1": ("Compiler::max_constraints off by one (padding + 1): the compressed route rejects a circuit the direct route compiles",
              "compressed route, exactly 2^k - 6 constraints, SRS exactly sufficient"),
    "C01-2": ("twiddle-seed table of the parallel final FFT stages built once and reused for the next stage",
              "FFT length >= 2^12 (circuit > 256 rows) and a pool size with ceil(2m/T) != 2*ceil(m/T) (7, 10, 11, 12, 14, 15, ...)"),
    "C02-1": ("rows whose selectors are all zero (and carry no public input) are not entered into the permutation map: their cells lose their copy constraints",
              "a forced proof from an assignment that satisfies every row but breaks the copy constraint of such a cell (e.g. the result row of a range gadget)"),
    "C02-2": ("the left-quad term c_0 = delta(a_w - 4a) dropped from the logic widget on prover (quotient, linearisation) and verifier alike",
              "a forced proof from an assignment violating only c_0 of a logic row; honest proofs keep verifying"),
    "C03-1": ("range widget: kappa^3 replaced by kappa^2 at the three sites that state the identity (prover quotient, prover linearisation, verifier)",
              "a circuit with a range row and a malicious prover with compensating quads; honest proofs keep verifying"),
    "C03-2": ("the verifier squeezes the u challenge before the two opening-witness commitments are absorbed",
              "a crafted pair of opening commitments whose errors cancel in the batched pairing; proof bytes of honest proofs are unchanged"),
    "C04-1": ("zero-valued public inputs are no longer absorbed into the transcript, on prover and verifier alike",
              "two circuits differing only in one zero-valued public-input slot, and a vector of adapted length"),
    "C04-2": ("the transcript-label cache is keyed by a 32-byte zero-padded prefix of the label",
              "two labels sharing their first 32 bytes, or a label and the same label followed by NUL bytes, used in one process"),
    "C05-1": ("compile skips the q_range / q_logic / q_fixed / q_variable columns when no row carries 1 or -1 in them",
              "a raw row whose internal selector is neither 0, 1 nor -1, no other row of that family, and a violation of that family's identity on the row"),
    "C05-2": ("the quotient-length check is removed; unsatisfied circuits are detected only when committing a quotient share fails",
              "an unsatisfied instance together with a commit key of degree >= 5n - 1: the four-row circuit (n = 4) with a corrupted built-in witness, or a prover decoded with an untrimmed SRS"),
    "C06-1": ("new data-parallel blinding path for domains >= 2^10 zips the blinder table with par_windows(2) instead of chunks: wires share draws, draws 5-7 are unused",
              "a circuit of 513+ rows (domain 1024) and single-draw substitution / opening-vs-mask check"),
    "C06-2": ("fused split-and-commit path for domains >= 2^11 commits the quotient shares without applying b_12, b_13, b_14",
              "a circuit of 1025+ rows (domain 2048) and substitution of draws 11-13"),
    "C07-1": ("component_mul_point returns the identity early when the base point's witness value is the identity",
              "mul_point with an identity base in one instance and another base in the other (e.g. default vs real instance)"),
    "C07-2": ("component_mul_generator checks 'fits in 252 bits' and then unwraps the JubJub scalar conversion",
              "a scalar witness in [r_jubjub, 2^252)"),
    "C15-1": ("hades scalar table built with insert instead of entry().or_insert: repeated MDS values (1/9 .. 1/13) share one slot",
              "a selector equal to one of 1/9..1/13 (Poseidon-style constants); which value the decoder restores depends on hash-map iteration order"),
    "C15-2": ("the compressed description's witness count counts only wired witnesses while labels are not renumbered",
              "a never-wired witness allocated before a wired one"),
    "C16-1": ("shared header check is_padded_size uses strict '<': decoders reject keys of circuits with exactly 2^k constraints",
              "a circuit with exactly 2^k constraints and a to_bytes -> try_from_bytes round trip"),
    "C16-2": ("proof evaluation scalars are decoded with a reducing constructor",
              "a proof string whose evaluation slot holds v + r"),
    "C17-1": ("limb comparison of the raw-point validation reverses only one side of the zip",
              "one coordinate of one raw commit-key point plus the field modulus"),
    "C17-2": ("CommitKey::from_slice uses chunks_exact: a partial last point is ignored instead of rejected",
              "parameters truncated inside a point (1-47 bytes into the first point gives an empty key and a later panic)"),
    "C18-1": ("butterfly_range unrolled two-way over chunks_exact_mut(2): the last butterfly of an odd-length range is skipped",
              "FFT length >= 2^12, pool >= 4 threads with an odd range length (5, 6, 7, 10-15, 17, ...)"),
    "C18-2": ("block-parallel Polynomial::evaluate computes the block shift before clamping the block length to 64",
              "polynomials of >= 1024 coefficients and more than 16 threads (17-32 threads at 1024 rows)"),
    "C19-1": ("per-thread twiddle seeds of the parallel final FFT stages computed once and reused for the last stage",
              "domain >= 2^12 and a pool size where ceil(2m/t) != 2*ceil(m/t)"),
    "C19-2": ("tau^size computed by a do-while squaring loop: one squaring too many on the size-1 domain",
              "the 2^0 domain and an evaluation point other than 0 or 1 (vanishing, Lagrange, barycentric)"),
    "C01-3": ("trim degree computed with a 'next power of two strictly greater' bit trick: doubles when constraints + 6 is an exact power of two",
              "exactly 2^k - 6 constraints and an SRS capacity in [2^k, 2^(k+1))"),
    "C01-4": ("Prover::try_from_bytes gains a clause rejecting size <= constraints",
              "a circuit with exactly 2^k constraints and a prover round trip"),
    "C04-3": ("the verifier accepts over-long public-input vectors (length check weakened to '<', vector sliced)",
              "a vector whose prefix is the honest one plus extra entries"),
    "C04-4": ("trailing NUL bytes of the label are stripped before the transcript is created",
              "two labels differing only by trailing NULs"),
    "C15-3": ("stale dictionary length between the q_o and q_f look-ups of the compressor",
              "one gate whose output and fourth selectors are both previously unseen, distinct scalars"),
    "C15-4": ("scalar section of a compressed description bounded by capacity + 11 instead of capacity x 11",
              "more distinct non-table selector values than capacity + 11 and an SRS only just large enough"),
    "C16-3": ("Verifier::try_from_bytes rejects a public-input index on the last constraint row (off by one)",
              "a circuit whose last gate carries a public input, and a verifier round trip"),
    "C16-4": ("Prover::try_from_bytes keeps only the first 64 bytes of the label",
              "a label longer than 64 bytes and a prover round trip"),
    "C17-3": ("PublicParameters::from_slice length guard '<=' becomes '<': exactly 240 bytes decode to an empty commit key",
              "an input that is exactly one opening key; compiling with the result panics"),
    "C17-4": ("Verifier::try_from_bytes allocates Vec::with_capacity(count) before comparing with the available bytes",
              "a public-input count field of 2^27..2^61 on a short input (huge allocation / capacity overflow panic)"),
    "C18-3": ("quotient division rewritten block-wise with a block-local index into the eight-entry inverse table",
              "pool size not a power of two and ceil(8n/T) > 1024 not a multiple of 8 (n >= 2^9 for T = 3, 2^10 for T = 5..7, ...)"),
    "C18-4": ("label cache keyed by (length, first 32 bytes)",
              "two labels of equal length > 32 bytes differing after byte 32, in one process"),
    "C02-3": ("compute_sigma_permutations closes each witness's cycle per chunk of 16 wire positions",
              "a witness used on more than 16 positions and a prover breaking a copy across blocks"),
    "C02-4": ("the last domain row is detached from the permutation when the gate count is exactly 2^k",
              "gate count exactly 2^k and a prover breaking a copy on the last gate's wires"),
    "C03-3": ("fixed-base widget: x and y accumulator checks share one separation weight on all three sites",
              "a circuit with fixed-base rows and a witness whose two residuals cancel, or an independent statement of the equation"),
    "C03-4": ("transcript seed absorbs the variable-base commitment in the q_fixed_group_add slot",
              "a circuit with curve gates and an independent transcript"),
    "C05-3": ("unsatisfied-circuit threshold 7n replaced by 8n",
              "row errors e_i with sum e_i w^i = 0, e.g. two rows half a domain apart violated by the same amount"),
    "C05-4": ("the permutation accumulator is built from the instance's own wiring instead of the compiled sigma",
              "an instance wired to other witness indices than the compiled description while all compiled copy constraints hold value-wise"),
    "C06-3": ("hiding degree of the permutation polynomial capped by the number of unused rows",
              "gate count 2^k or 2^k - 1 (12 or 13 draws instead of 14)"),
    "C06-4": ("a draw that reduces to zero is replaced by system randomness",
              "an RNG stream containing a draw that is 0 mod r"),
    "C07-3": ("append_evaluated_output returns None (allocates nothing) when the evaluated polynomial is zero and q_O is not +-1",
              "a general output selector and witness values that make the rest of the polynomial vanish"),
    "C07-4": ("append_public_point omits the public-input row of a zero coordinate",
              "a public point with a zero coordinate (identity) in one instance and another point in the other"),
    "C19-3": ("vanishing polynomial over the coset computed for one 'period' size/degree and repeated",
              "a degree that does not divide the domain size"),
    "C19-4": ("Lagrange coefficients scaled through par_chunks_exact_mut: the remainder keeps 1/(tau - w^i)",
              "a pool size that is not a power of two, tau outside the domain, coefficients near the end"),
    "C01-5": ("compile_with_compressed re-checks the decoded size with '>=' against the inclusive maximum",
              "compressed route and exactly floor_pow2(capacity) - 6 constraints (the largest circuit the SRS admits)"),
    "C01-6": ("permutation accumulator computed by a rayon-blocked scan for domains >= 1024: the tail block of n mod workers rows is dropped",
              "domain >= 1024, a pool size that does not divide it (3, 5, 6, 7, 9, 12, ...) and live gates within n mod workers rows of the power of two"),
    "C02-5": ("transcript prelude shared between verify and verify_legacy absorbs w_z_chall_comm under both opening labels: u is not bound to [W_zw]",
              "a purpose-built pair of opening commitments (W_zw chosen after u is known); honest proofs and random tampering are unaffected"),
    "C02-6": ("range identity folded by Horner's rule with the innermost kappa missing, on prover and verifier alike: two quad checks share one weight",
              "a circuit with range rows and an independent statement of the identity (or two out-of-range quads with opposite deltas)"),
    "C03-5": ("per-thread single-slot memo of the seeded V3 transcript keyed by (label, constraints, n) but not by the verifier-key commitments",
              "two different circuits with the same label and size used back-to-back on one thread"),
    "C04-5": ("label cache keyed by String::from_utf8_lossy(label)",
              "two labels that are invalid UTF-8 and differ only inside the invalid sequences, used in one process"),
    "C05-5": ("grand-product loop runs through the last row and asserts that the accumulator returns to one",
              "an instance that satisfies every row but breaks a copy constraint (re-wired twin): Prover::prove panics instead of returning CircuitUnsatisfied"),
    "C06-5": ("all 14 masking scalars drawn through random_nonzero_bls_scalar: a zero draw is discarded and redrawn",
              "an RNG stream with a draw that reduces to zero (15+ draws, shifted masks; an all-zero stream never terminates)"),
    "C06-6": ("wire blinding through par_iter().map_with(blinders.iter(), ..) for domains >= 2^12: every split restarts at blinder pair 0",
              "a circuit of 2049+ rows (domain 4096) and single-draw substitution"),
    "C07-5": ("add_point_gates returns Composer::IDENTITY (witnesses 0, 1) when the host-side sum has a zero Z",
              "off-curve coordinates that hit a pole of the addition law, with the sum consumed by a later gate"),
    "C15-5": ("one-entry cache of the last resolved selector tuple in the decoder is refreshed after .public(0): the public-input flag leaks into the next row",
              "a public-input row directly followed by a non-public row with the identical selector tuple"),
    "C15-6": ("new canonical-array-header check uses 16 (number of fixarray lengths) as the largest fixarray length",
              "exactly 16 entries in one of the description's vectors (rows, public inputs, selector tuples or scalars)"),
    "C16-5": ("Commitment::from_bytes returns the identity whenever the first byte is 0xc0, without looking at the other 47 bytes",
              "a proof string with a commitment slot c0 || non-zero bytes"),
    "C16-6": ("Prover::try_from_bytes section reader yields a section only if it is non-empty",
              "a prover compiled with the empty label and a round trip"),
    "C17-5": ("compressed-circuit scalars are decoded lazily, only when a selector row refers to them",
              "a re-packed description with a spare non-canonical scalar that no selector row points at"),
    "C18-5": ("64-element floor on the range length of the parallel final FFT stages while the twiddle seeds stay spaced for ceil(m/threads)",
              ">= 17 threads with an FFT of 2^12 points (>= 33 at 2^13, >= 65 at 2^14)"),
    "C18-6": ("three-phase parallel prefix scan for the permutation grand product: rows beyond floor(n/workers)*workers keep the value one",
              "a pool size that does not divide the domain and a circuit that fills its domain to within n mod workers rows"),
    "C19-5": ("batch_inversion gains a parallel path over par_chunks_exact_mut(256) for >= 1024 entries: the remainder is not inverted",
              "a slice of >= 1024 entries whose length is no multiple of 256 (through the API: >= 1023 non-zero public inputs)"),
    "C01-7": ("Verifier::try_from_bytes gains a header check that compares the public-input section length in bytes (count x 8) with the constraint count",
              "a verifier restored from its own bytes whose circuit has public inputs on more than one eighth of its rows"),
    "C04-6": ("per-Verifier memo of accepted (proof, public inputs) digests shared by the V2 and V3 arms: a hit skips the transcript seeding that separates the versions",
              "the same Verifier object first accepts a message under its own version and is then asked about the same message under the other one"),
    "C04-7": ("public inputs absorbed 64 at a time through chunks_exact(64) on prover and verifier alike: the last len % 64 entries of a vector of >= 64 stay out of the transcript",
              "a vector of >= 64 public inputs with len % 64 >= 2 (two tail entries re-balanced for the replayed z), or an independent transcript"),
    "C05-6": ("Composer::prove gains a fail-fast arithmetic check that uses the selectors the instance carries instead of the compiled ones",
              "an instance whose wire values satisfy the compiled rows but which carries another constant or scaling selector on one row"),
    "C16-7": ("Verifier::try_from_bytes rebuilds the inverse public-input roots in one walk over the domain with a wrong shortcut for rows more than 64 apart",
              "a decoded verifier, two consecutive public-input rows more than 64 rows apart, a non-zero public input at or after the gap"),
    "C16-8": ("proof evaluations decoded by a variable-time limb comparison that falls through when all limbs equal the modulus: r is accepted as a second encoding of zero",
              "a proof string with an evaluation slot holding exactly the field modulus"),
    "C17-6": ("compressed decoder validates selector indices against 3 + 360 table entries while the deduplicated table has 347, and indexes the table directly",
              "hades_optimization = true and a referenced selector index in the 16-wide window just beyond the table"),
    "C17-7": ("identity rule of the raw commit-key points moved onto the decoded point (G1Affine equality is vacuous when both infinity flags are set); flagged points skip the curve and subgroup checks",
              "a raw commit-key point with flag byte 1 over arbitrary reduced coordinates"),
    "C18-7": ("the Prover owns the dense public-input vector in an Arc<Mutex<Vec>>: filled at the top of prove, read again in round 3, lock not held in between",
              "two threads proving instances with different public inputs on the same Prover (or clones of it), the second fill landing between the first fill and its interpolation"),
    "C18-8": ("wire-value vectors recycled between proofs through a thread_local and prepared with resize(): stale values survive in the padding rows",
              "an earlier prove on the same thread with more live rows than the current circuit has constraints (std build only)"),
    "C02-7": ("verifier-only: the batched-opening loop skips tuples whose commitment is the identity, dropping the matching evaluation term from E as well",
              "a purpose-built proof with an identity wire commitment and a solved-for evaluation (a forger that reads the polynomials from Prover::to_bytes), or an oracle on the pairing product"),
    "C02-8": ("rows that carry a public input are no longer entered into the permutation (match has_public_input { true => record PI, false => add_witnesses_to_map })",
              "a circuit in which the witness on a public-input row is also used elsewhere, and an assignment with different values on the two uses"),
    "C03-6": ("label cache kept as a Vec scanned with cached.starts_with(label): a request gets the first cached label that extends it",
              "two labels S and S+suffix used in one process, the longer one first"),
    "C03-7": ("Verifier::verify_with_version merges 'legacy transcript' and 'legacy batching' into one flag: V2 proofs are checked with the V1 equation",
              "verification under the explicitly selected V2 profile (V2 proving needs the legacy-proving feature)"),
    "C06-7": ("sequential fall-through of blind_wire_polynomials (taken when rayon::current_num_threads() == 1) indexes the blinder table flat: wires share draws, f5..f7 unused",
              "a one-thread rayon pool or an alloc-only build"),
    "C06-8": ("FIPS-style continuous RNG test wraps the caller's RNG: a 64-byte block equal to its predecessor is replaced by OsRng (std) or an extra draw",
              "an RNG stream in which a draw repeats the one immediately before it"),
    "C19-6": ("inverse FFT fast path 'all evaluations equal -> constant polynomial' scans the input before it is padded to the domain size",
              "ifft / coset_ifft of an input shorter than the domain whose entries are all equal and non-zero (every length-1 input)"),
    "C19-7": ("index-based rewrite of batch_inversion peels slot 0 off without the zero check",
              "a slice whose first entry is zero"),
    "C01-9": ("ProverKey::from_slice accepts a serialized polynomial only if it is empty or has exactly n coefficients",
              "the serialized-bytes route and a selector column whose leading coefficient vanishes (the same gadget half a domain apart; a full 2^k-row circuit of arithmetic rows)"),
    "C04-9": ("q_m..q_c coefficients are compiled into the keys only on rows that have q_arith, q_logic or q_fixed_group_add set",
              "a row added through append_custom_gate (q_arith = 0) with non-zero coefficients and a near miss in one of them: two descriptions, one verifier key"),
    "C05-7": ("Composer::prove rejects a witness table longer than 4 x constraints + 2",
              "an instance that allocates many witnesses it never wires"),
    "C05-8": ("wire blinders pushed at the end of Evaluations::interpolate()'s trimmed coefficient vector",
              "a padded wire column whose interpolation has degree below n - 1 (sum w_i omega^i = 0): a satisfied instance is rejected"),
    "C07-6": ("component_truncate reuses the input witness as the low part when the value already fits in N bits",
              "a description compiled from a fitting value (the all-zero default) and an instance whose value does not fit"),
    "C07-7": ("append_logic_and takes a truncation fast path when the second operand equals the all-ones mask of the gadget's width",
              "a witness equal to 2^(2 BIT_PAIRS) - 1"),
    "C15-7": ("the compressor reuses the previous row's selector tuple when ten of the eleven selectors match (q_f is not compared)",
              "two adjacent rows that agree in every selector except q_f"),
    "C15-8": ("the decompressor sizes its witness map from the witness count declared in the description",
              "a crafted description whose declared witness count is huge (capacity overflow / allocation not bounded by the parameters)"),
    "C16-9": ("CommitKey::from_slice decodes keys of >= 512 points through par_bridge(), which does not keep order",
              "parameters with >= 512 points, the std build and a pool with more than one worker"),
    "C16-10": ("Verifier::try_from_bytes cross-checks size against 1 << (BITS - constraints.leading_zeros()), which doubles at exact powers of two",
              "a circuit with exactly 2^k constraints and a verifier round trip"),
    "C17-8": ("Evaluations::from_slice allocates Vec::with_capacity(domain_size) from the serialized domain header before comparing with the remaining bytes",
              "a prover key with a canonical large domain header and little or no evaluation data (only the allocation differs, never the result)"),
    "C17-9": ("opening-key G2 elements decompressed unchecked and subgroup-checked only as a sum h + x_h",
              "both G2 slots shifted by opposite components outside the subgroup"),
    "C18-9": ("Hades tables de-duplicated into a HashSet and numbered by iterating it, cached in a OnceLock",
              "compress / compile_with_compressed of a circuit with Hades constants as selectors, compared across processes (or with the alloc-only build)"),
    "C18-10": ("domain elements filled block-wise per worker, block start computed by squaring trailing_zeros(block_len) times",
              "a pool size that is not a power of two and a circuit of >= 2^10 rows"),
}


def main():
    rows = []
    for sid in sorted(os.listdir(SEEDED)):
        mp = os.path.join(SEEDED, sid, "meta.json")
        if not os.path.exists(mp):
            continue
        m = json.load(open(mp))
        what, needs = DESC.get(sid, ("", ""))
        m["change"] = what
        m["needs_to_manifest"] = needs
        m["breaks"] = m.get("breaks") or m.get("property")
        m["what_i_ran"] = [r["cmd"] + f"  -> exit {r['exit']}, {r['passed']} passed, {r['failed']} failed" for r in m.get("ran", [])]
        json.dump(m, open(mp, "w"), indent=1)
        own = m["breaks"]

        def fmt(checks):
            if not checks:
                return "-"
            out = []
            for c, r in sorted(checks.items()):
                if r["exit"] == 1:
                    inv = r["first"].split("invariant=")[1].split()[0] if "invariant=" in r["first"] else "?"
                    out.append(f"{c}: caught ({inv})")
                elif r["exit"] == 0:
                    out.append(f"{c}: missed")
                else:
                    out.append(f"{c}: harness error")
            return "; ".join(out)
        rows.append((sid, own, what, needs, fmt(m.get("round1_checks") or m.get("first_try_checks")), fmt(m.get("checks"))))
    print("| id | change | needs | round 1 | final checks |")
    print("|---|---|---|---|---|")
    for r in rows:
        print(f"| {r[0]} | {r[2]} | {r[3]} | {r[4]} | {r[5]} |")


if __name__ == "__main__":
    sys.exit(main())

#!/bin/bash
# Reach measurement: which lines of /repo/src do the checks execute?  (not a deciding step)
#   tools/coverage.sh [prop ...]      -> out/cov/report.txt, out/cov/uncovered/<file>.txt
# Builds engine E1 with source-based coverage (nightly, -C instrument-coverage) into target/cov-e1,
# runs the quick tier of each claimed check with a reduced run count, merges the profiles.
set -u
cd "$(dirname "$0")/.."
LLVM=$(dirname "$(rustc +nightly --print target-libdir)")/bin
props=${@:-C01 C02 C03 C04 C05 C06 C07 C15 C16 C17 C18 C19}
rm -rf out/cov/raw; mkdir -p out/cov/raw out/cov/uncovered
export VERIF_COVERAGE=1
export LLVM_PROFILE_FILE=$PWD/out/cov/raw/%p-%8m.profraw
for p in $props; do
  if [ "${VERIF_COV_RUNS:-64}" = "full" ]; then
    VERIF_BUDGET_S=${VERIF_COV_BUDGET_S:-300} ./check $p --tier quick 2>&1 | tail -2
  else
    VERIF_RUNS=${VERIF_COV_RUNS:-64} VERIF_BUDGET_S=${VERIF_COV_BUDGET_S:-300} ./check $p --tier quick 2>&1 | tail -2
  fi
done
$LLVM/llvm-profdata merge -sparse out/cov/raw/*.profraw -o out/cov/all.profdata || exit 2
BIN=target/cov-e1/release/plonksim
$LLVM/llvm-cov report $BIN -instr-profile=out/cov/all.profdata -ignore-filename-regex='(\.cargo|rustc|/verif/)' > out/cov/report.txt
$LLVM/llvm-cov show $BIN -instr-profile=out/cov/all.profdata -ignore-filename-regex='(\.cargo|rustc|/verif/)' -show-line-counts-or-regions -show-instantiations=false > out/cov/show.txt
tail -3 out/cov/report.txt

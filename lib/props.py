"""Per-property configuration of the checks (what the driver needs to know;
the deciding logic lives in /verif/sim/plonksim/src/<id>.rs)."""

COMPONENTS = {
    "real_code": [
        "dusk-plonk (all of /repo/src, built from the working tree with --cfg dusk_plonk_verif)",
        "dusk-bls12_381 (field, curve, pairing, MSM incl. its `parallel` feature)",
        "dusk-jubjub", "merlin", "hashbrown + ahash 0.7.8 (hashing code unchanged)",
        "msgpacker", "miniz_oxide", "blake2b_simd", "sha2",
    ],
    "stub": [
        "rayon -> sim-rayon (sequential task-granular scheduler; every split, order, reduction tree and the reported pool size is a seeded simulator decision)",
        "ahash's RandomSource -> seeded `hash` stream (only change to ahash: `pub use RandomSource`)",
        "caller RNG -> scripted RNG (logs every call, substitutes single draws)",
    ],
    "modelled": [
        "disk and channel: in-memory byte strings with the fault catalogue of DESIGN.md section 3.4 (the library performs no I/O itself)",
        "allocator: counting #[global_allocator] with a per-case budget",
    ],
    "unused": ["OS entropy (never consulted)", "real clocks / sleeps / sockets / files (none exist in the crate)"],
}

COMMON_ASSUMPTIONS = [
    "task-granular scheduling: rayon tasks run to completion; a task can influence a result only through the piece of the index space it is given, the reported pool size, the order in which partial results are combined, and Sync shared state (one object: the transcript-label cache). Preemption inside a task is not modelled.",
    "a clean batch of seeded runs is evidence, not proof: the space of schedules, fault sequences and workloads is sampled, not enumerated (except where `exhaustive` says so for a named sub-space).",
    "the reference models in /verif/sim/plonksim/src (rm_*.rs) are the trusted base.",
]

C19_RULE = "one evaluation = one kernel call compared with the same call under the canonical environment (schedule independence: pool size T from the menu incl. both sides of the >=4-thread switch, seeded schedule), or one sampled output index compared with the mathematical definition computed by Horner evaluation in the harness (fft(a)[i] = sum_j a_j w^(ij); coset form with the field generator; ifft; coset_ifft), or one algebraic identity (ifft(fft(a)) = a, coset_ifft(coset_fft(a)) = a, sum_i L_i(tau) f(w^i) = f(tau) with tau inside and outside the domain, barycentric vs direct evaluation outside and at a point of the domain, vanishing polynomial closed forms over cosets of arbitrary degree, incl. degrees that do not divide the domain size). Domain sizes 2^0..2^14 (both sides of the 2^12 parallel threshold), input lengths shorter than, equal to and (up to 2^12) longer than the domain, vectors with zeros / trailing zeros / unit vectors. Every third run exercises the serial kernels instead: polynomial addition, subtraction, scaled addition, scalar multiplication, multiplication (FFT-based; exact schoolbook product for small operands, degree plus three random evaluation points for operands up to ~4000 coefficients, product domains on both sides of 2^12), evaluation (Horner), division by a linear factor (synthetic division incl. z = 0 and constant / zero dividends) and batch inversion (every non-zero entry inverted, zeros left; lengths 0..4200 incl. 1023/1024/1025 and lengths that are no multiple of any block size) - each compared with schoolbook arithmetic and, under three seeded pools/schedules, with its own result under the canonical environment. Non-trivial = non-canonical environment or a definitional check; distinct = hash of (input vector, domain, kernel, environment or index)."


def c17_coverage(agg):
    want = int(agg["notes"].get("enum_runs", "0") or 0)
    got = agg["probes"].get("enumeration_chunks", 0)
    complete = want > 0 and got == want
    return {
        "exhaustive": bool(complete),
        "exhaustive_scope": "only the enumerated sub-spaces: every single-bit flip of " + agg["notes"].get("enumerated_subspaces", "?") + " (minimal deployment); everything else is seeded exploration",
        "enumeration_chunks_run": got,
        "enumeration_chunks_total": want,
    }


PROPS = {
    "C01": {
        "level": "exploration",
        "runs": {"quick": 1200, "thorough": 60000},
        "budget_s": {"quick": 400, "thorough": 3000},
        "rule": "one evaluation = one honest proving request (generated circuit program with a satisfying tape, constraint count 2^k+d with d in -8..8, k=3..10 (thorough: ..12), public inputs on generated rows incl. first user row / last row of a full domain / adjacent / zero-valued, raw zero rows with arbitrary selectors, SRS exactly sufficient or ample) pushed through the fault-free deployment: compile by a seeded route (compile_with_circuit / compile::<C> via Default / compressed), keys used directly or after a restart (drop + reload from bytes), prove under a seeded pool/schedule/hash stream with V3 or V2, deliver to the real verifier and the independent reference verifier. Non-trivial = non-default route, or a restart, or a non-canonical environment; distinct = hash of (scenario shape, environment, route, proof index).",
        "assumptions": ["degenerate RNG draws (probability ~2^-250) are outside the property and are not injected here"],
    },
    "C02": {
        "level": "exploration",
        "runs": {"quick": 400, "thorough": 10000},
        "budget_s": {"quick": 400, "thorough": 3000},
        "rule": "one evaluation = one adversarial (proof, public inputs) message delivered to the real verifier and to RM-verify; the verdict must be an error, never Ok, never a panic. Strategy classes of the Byzantine prover actor: (1) the honest proving algorithm run on a witness table corrupted at a seeded allocation instant (bit flip, +-1, x2, negate, 0, 1, -1, 2, 2^j, 2^j-1, stale copy, random, r_jubjub, r_jubjub-1) with the unsatisfied-circuit check forced off and the quotient remainder dropped (hooks witness_fault + force), kept only when the independent row evaluator RM-rows reports a violated gate identity or copy constraint; (2) the same on the re-wired twin program (every row satisfied, one compiled copy constraint broken); the forged proof also with the honest public inputs; (3) field-wise splices of two valid proofs of the circuit; (4) swap of fields within a proof and fresh valid elements in any of the 26 fields; (5) all-zero and all-identity proofs with the honest public inputs and with zeros; (6) a valid proof replayed with other public inputs. Non-trivial = every delivered message; distinct = hash of (scenario, fault / message bytes).",
        "assumptions": ["adversaries are sampled by strategy class; this is not a soundness proof. Solved-for forgeries of evaluations (tier B of DESIGN.md, needs an independent prover) are not built", "RM-rows and RM-verify are the trusted base"],
    },
    "C03": {
        "level": "exploration",
        "runs": {"quick": 400, "thorough": 8000},
        "budget_s": {"quick": 400, "thorough": 3000},
        "rule": "one evaluation = one (verifier, proof bytes, public inputs, version) tuple decided by the real verifier and by the independent reference verifier RM-verify (written from the protocol, fed only Verifier::to_bytes(), proof bytes, public inputs, version); verdicts must be equal (I-refine), every challenge the real verifier squeezes must be the protocol transcript's (I-transcript, hook H7), the pairing product the real verifier compares with the identity must equal the protocol's e(left,[x]_2)/e(right,[1]_2) for the same message, on rejected messages too (I-equation, hook H9), honest proofs must be accepted under their own version, every altered message must be rejected. Corpus per run: 3 honest proofs x 3 versions, seeded channel faults (bit flips, truncation, splices of two valid proofs, field swaps, fresh valid elements, neutral elements, all-zero / all-identity proofs), every one of the 26 proof fields substituted once, altered public inputs, delivery to the verifier of a near-miss circuit. Thorough tier: on every 64th run all 8064 single-bit flips of one honest proof. Non-trivial = the message differs from the honest one or the version differs; distinct = hash of (scenario, message bytes, fault kind).",
        "assumptions": ["RM-verify (sim/plonksim/src/rm_verify.rs) is the trusted statement of the verification equation and transcript", "the rejection branch for an evaluation challenge inside the domain is unreachable through the API (z is a hash output) and is reported as unreached", "I-equation assumes the verifier evaluates the protocol's equation unscaled (true of the pinned tree; either orientation of the product is accepted, and regrouping terms between the two pairings does not change it); a verifier that multiplied its check by a message-dependent non-zero factor would keep the accept set and would need the oracle adapted"],
    },
    "C04": {
        "level": "exploration",
        "runs": {"quick": 600, "thorough": 16000},
        "budget_s": {"quick": 400, "thorough": 3000},
        "rule": "one evaluation = one delivery of an honestly produced (proof, public inputs, version) message under a channel fault: public-input vector edits (every position +1 / 0 / swap / drop / duplicate, seeded replace, append, prepend, clear), delivery to the verifier of a near-miss circuit (one selector, one constant, one operand wire, one public-input row, one constraint more/fewer; skipped and counted when the verifier bytes are identical), of another label (byte flipped / appended / prepended / truncated / empty), of another protocol version (all ordered pairs V2,V3 x V1,V2,V3), duplicate delivery. Oracle by message identity: only the exact honest tuple may be accepted; a panic is a violation; RM-verify mirrors every decision. Non-trivial = the delivered tuple differs from the honest one.",
        "assumptions": ["V1 has no prover in the library, so V1 appears only on the verifier side of the version pairs"],
    },
    "C05": {
        "level": "exploration",
        "runs": {"quick": 800, "thorough": 20000},
        "budget_s": {"quick": 400, "thorough": 3000},
        "rule": "one evaluation = one proving request on a faulty host: the value stored at a seeded witness-allocation instant k is corrupted (same menu as C02) and everything computed afterwards proceeds honestly, or one operand of one arithmetic row is re-wired to a fresh witness with another value (twin: rows hold, a compiled copy constraint breaks); the unsatisfied-circuit check stays on. Oracle: the independent row-by-row evaluator RM-rows (each identity component of the arithmetic / range / logic / fixed-base / curve-addition widgets separately, next-row wires cyclic over the padded domain, compiled copy constraints value-wise) on the snapshot of the faulted instance against the compiled layout: satisfied => Prover::prove is Ok and the proof is accepted by the real and the reference verifier; violated => Err(CircuitUnsatisfied); other row count => Err(InvalidCircuitSize); synthesis error => that error; never a panic. Programs include raw rows with arbitrary selector combinations, a selected row on the last row of a full domain, twins at exactly 2^k rows, and symmetric-pair programs (two rows half a domain apart violated by the same amount, so that sum e_i w^i-style cancellations in the quotient are exercised). Thorough tier: for every 8th program with <= 300 witnesses every allocation instant x 10 fixed corruption kinds is enumerated. Non-trivial = the fault changed a stored value (or a twin).",
        "assumptions": ["RM-rows treats each identity component separately; the prover combines them with random separation challenges, so the two can differ only with probability ~2^-250", "RM-rows (sim/plonksim/src/rm_rows.rs) and RM-verify are the trusted base"],
    },
    "C06": {
        "level": "exploration",
        "runs": {"quick": 240, "thorough": 6000},
        "budget_s": {"quick": 400, "thorough": 3000},
        "rule": "one evaluation = one check on a proof computed under a scripted RNG: (a) the call log of the RNG seam during Prover::prove is exactly 14 x fill_bytes(64) and no draw happens before circuit synthesis finished; (b) for each of the 14 draws the proof is recomputed with that single draw replaced by draw + D and the first proof element that may move is compared with D x [mask slot] computed from SRS points: a wire slot moves exactly one of the four wire commitments by D[X^(n+i) - X^i] (i in 0,1), a z slot leaves the wire commitments unchanged and moves z_comm by D[X^(n+i) - X^i] (i in 0,1,2), a quotient slot leaves wire and z commitments unchanged and moves two adjacent quotient-share commitments by +D[X^n] and -D[1]; the map draw -> slot must be a bijection onto the 14 slots (draw order not prescribed); (c) with that bijection, the witness snapshot of the proving run and beta, gamma, z re-derived by the reference transcript, the 8 wire / z evaluations equal the barycentric evaluation of the unmasked witness column (or of the permutation accumulator recomputed from the compiled wiring) plus the prescribed mask (b0 + b1 x (+ b2 x^2)) Z_H(x) at x = z or z*omega; (d) two proofs of one witness under scripts that differ in every draw share none of the 11 commitments and none of the 8 wire / z evaluations; (e) a script in which one draw is zero (64 zero bytes) still yields exactly 14 draws and a proof that is a function of the script alone (two runs byte-identical); (f) the same for a script in which one draw repeats the 64 bytes of the draw before it (a stuck RNG): 14 draws, two runs byte-identical, and the repeated draw is used as drawn. Gate counts include 2^k and 2^k-1 (no unused rows), domains up to 2^12 (2^10 on every 48th run, 2^11 on every 96th, 2^12 on every 120th; far more often in the thorough tier). Non-trivial = every substitution, opening and disjointness check.",
        "assumptions": ["SRS points are read from PublicParameters::to_var_bytes(); RM-verify's transcript re-derives the challenges", "domain sizes n <= 64 mostly, 128..4096 in a share of the runs"],
    },
    "C07": {
        "level": "exploration",
        "runs": {"quick": 6000, "thorough": 200000},
        "budget_s": {"quick": 400, "thorough": 3000},
        "rule": "one evaluation = one synthesis of a generated program (every public composer component incl. range / logic / truncate / decomposition at the widths of the menu, point components, mul_point and mul_generator, raw rows) under a fault injected during synthesis: the witness-allocation hook corrupts the value stored at instant k (menu as in C02, plus a y-coordinate solved for so that it forms an addition-law pole with the three values stored before it; for every 4th program with <= 400 witnesses every instant is enumerated), or a hostile tape delivers corrupted request values (off-curve point, (0,0), zero-Z extended point, mixed-order and small-order curve points, order-2 point, inconsistent T1*T2, scaled-Z representation, identity, two point inputs placed on a pole of the addition law with respect to each other (d x1 x2 y1 y2 = +-1); scalars 2 as a bit, -1, r_jubjub, r_jubjub-1, 2^k, 2^k-1, 2^252, random). Oracle: synthesis returns Err, or the snapshot's selectors, wiring, public-input rows, row count and witness count equal those of the default (zero-tape) instance; a panic is a violation; abort / hang are caught by the supervisor through pre-case log lines. Non-trivial = every faulted synthesis.",
        "assumptions": ["const-generic widths are monomorphised from a fixed menu (range bits 0..256 at 29 widths, bit-pairs at 13, logic at 12, truncate at 16, decomposition at 12)"],
    },
    "C15": {
        "level": "exploration",
        "runs": {"quick": 500, "thorough": 12000},
        "budget_s": {"quick": 400, "thorough": 3000},
        "rule": "one evaluation = (a) one route pair: a generated program (unused witnesses, repeated and distinct selector tuples, selectors drawn from the compressor's built-in constant table incl. Hades constants in half of the runs, zero-valued public inputs, public input on first/last row, raw rows, dense-selector programs with more distinct non-table selector values than capacity + 11) x label x SRS degree from {needed-7, needed-1, needed, needed+1, needed/2, 2*needed, 2*needed-1} compiled directly (compile_with_circuit or compile::<C>) and through compress()+compile_with_compressed under independently chosen pool / schedule / hash-seed environments; both must fail, or both succeed with byte-identical Prover::to_bytes and Verifier::to_bytes, and they must succeed exactly when the degree admits the circuit; or (b) one hostile description fed to compile_with_compressed: structure-aware edits of a valid description (public-input rows out of range / unsorted / duplicated, witness count too small / huge / sparse, scalar / polynomial / witness indices out of range, non-canonical scalar, extra constraints / polynomials / scalars beyond the capacity, trailing bytes inside the payload and after the deflate stream, 32-bit array headers announcing 2^32-1 elements, deflate bombs, flipped Hades flag, no multiplication gates, dropped leading rows, empty description) and the disk-fault catalogue; must-reject edits must yield Err, everything else Err or keys that survive their own encoding, pass the strict parsers and prove without panicking; peak allocation <= 64 KiB x max_constraints(pp) + 8 MiB. Non-trivial = every route pair (two independent environments) and every description that differs from the valid one.",
        "assumptions": ["the allocation budget is calibrated with >= 4x head-room over the largest valid description the parameters admit"],
    },
    "C16": {
        "level": "exploration",
        "runs": {"quick": 600, "thorough": 16000},
        "budget_s": {"quick": 400, "thorough": 3000},
        "rule": "one evaluation = one restart comparison: a node's in-memory Prover / Verifier / Proof / PublicParameters is dropped and reloaded from the bytes on the simulated disk (no disk faults in this class); checked are encode(decode(b)) == b, serialized_size == len, identical proof bytes from original and reloaded prover under the same RNG script and independently chosen environments, identical verdicts of original and reloaded verifier on every message of the run's corpus (honest + seeded channel-corrupted messages, accepts and rejects), parameters reloaded via to_var_bytes/from_slice compiling to byte-identical keys, and canonicity of every 1008-byte string the proof decoder accepts. Non-trivial = every comparison involves a reloaded object; distinct = hash of (scenario, comparison kind, message).",
        "assumptions": [],
    },
    "C17": {
        "coverage_fn": c17_coverage,
        "level": "fault_enumeration",
        "runs": {"quick": 420, "thorough": 12000},
        "budget_s": {"quick": 500, "thorough": 3000},
        "rule": "one evaluation = one faulted byte string fed to a checked decoder (Prover::try_from_bytes incl. the raw commit key, Verifier::try_from_bytes, Proof::from_slice, PublicParameters::from_slice, Compiler::compile_with_compressed) in a build with debug assertions and overflow checks on. Enumerated completely (exhaustive sub-spaces): every single-bit flip of the minimal deployment's verifier key, proof and compressed circuit, of the prover key's header and the first and last 512 bytes of each of its sections (label, prover key, raw commit key, verifier key), and of the parameters' opening key and first/last four points; every truncation length of the verifier key, proof, compressed circuit and small parameters, and every length within 48 bytes of each prover-key section boundary (plus the first 64 lengths). Explored by seeded search: the disk-fault catalogue (multi-bit flips, short / torn / lost / misdirected writes, zeroed blocks, duplication, garbage, edits of every length and count field to 0,1,v+-1,2^31,2^32,2^63,u64::MAX,..., raw-point edits: flag byte, non-reduced limbs, infinity flag with coordinates, off-curve, swapped coordinates; non-canonical scalars; compressed-G1 flag games; structure-aware compressed-circuit edits) on generated deployments. Oracle: no panic (abort / hang caught by the supervisor through pre-case log lines), peak allocation <= 16 x input + 1 MiB (compressed circuits: bounded by the parameters' capacity), accepted values re-encode to bytes that pass independent strict parsers (canonical scalars, valid compressed points, raw points with flag in {0,1}, reduced limbs, on curve, prime-order subgroup, non-identity opening key) and can be used (prove / verify / compile) without panicking. Non-trivial = the bytes differ from the stored ones; distinct = hash of the faulted bytes.",
        "assumptions": ["no claim is made about what a semantically altered but well-formed key proves or accepts (the formats carry no integrity tag)", "in the quick tier one quarter of the accepted single-bit neighbours of the prover key are additionally used for proving, in the thorough tier all of them"],
    },
    "C19": {
        "level": "exploration",
        "runs": {"quick": 1600, "thorough": 40000},
        "budget_s": {"quick": 400, "thorough": 3000},
        "rule": C19_RULE,
        "assumptions": ["kernels are reached through the verif::kernels wrappers (hooks H5, H8). The FFT family, Lagrange coefficients, barycentric evaluation and vanishing-polynomial closed forms have a parallel path today; polynomial add/sub/mul/evaluate/ruffini and batch_inversion do not (polynomial multiplication inherits the FFT's) - for those the schedule dimension is a guard against a parallel path being introduced, and their comparison with schoolbook arithmetic is plain input variety (workload), reported as such"],
    },
    "C18": {
        "extra_phase": lambda mod, prop, tier, seed, agg: mod.c18_extra_phase(mod, prop, tier, seed, agg),
        "level": "exploration",
        "runs": {"quick": 320, "thorough": 12000},
        "budget_s": {"quick": 400, "thorough": 3000},
        "rule": "one evaluation = one top-level operation (compile by a seeded route / compress / prove with a fixed RNG script) executed under a perturbed environment (pool size T from the menu 1..17,24,31,32,33,64,100; seeded schedule; seeded hash-seed stream; seeded history of unrelated deployments; keys optionally reloaded from bytes) and compared byte-for-byte with the sequential specification (T=1, in-order, hash stream 0, empty history); plus per-run digests of the std build (E1) compared with the alloc-only build (E3); plus, under shuttle (E2), 2..4 (thorough: ..9) concurrent caller threads on shared keys, each performing a seeded list of prove / verify / to_bytes / compile calls whose results must equal the same calls made sequentially, one evaluation per explored schedule. Non-trivial = the environment is not the canonical one; distinct = distinct hash of (scenario shape, environment, operation).",
        "assumptions": ["std vs alloc-only builds are compared through per-run digests emitted by two separately built binaries (E1/E3)."],
    },
}

"""Per-property configuration of the checks (what the driver needs to know;
the deciding logic lives in /verif/sim/plonksim/src/<id>.rs)."""

COMPONENTS = {
    "real_code": [
        "dusk-plonk (all of /repo/src, built from the working tree with --cfg dusk_plonk_verif)",
        "dusk-bls12_381 (field, curve, pairing, MSM incl. its `parallel` feature)",
        "dusk-jubjub", "merlin", "hashbrown + ahash 0.7.8 (hashing code unchanged)",
        "msgpacker", "miniz_oxide", "blake2b_simd", "sha2",
    ],
    "stub": [
        "rayon -> sim-rayon (sequential task-granular scheduler; every split, order, reduction tree and the reported pool size is a seeded simulator decision)",
        "ahash's RandomSource -> seeded `hash` stream (only change to ahash: `pub use RandomSource`)",
        "caller RNG -> scripted RNG (logs every call, substitutes single draws)",
    ],
    "modelled": [
        "disk and channel: in-memory byte strings with the fault catalogue of DESIGN.md section 3.4 (the library performs no I/O itself)",
        "allocator: counting #[global_allocator] with a per-case budget",
    ],
    "unused": ["OS entropy (never consulted)", "real clocks / sleeps / sockets / files (none exist in the crate)"],
}

COMMON_ASSUMPTIONS = [
    "task-granular scheduling: rayon tasks run to completion; a task can influence a result only through the piece of the index space it is given, the reported pool size, the order in which partial results are combined, and Sync shared state (one object: the transcript-label cache). Preemption inside a task is not modelled.",
    "a clean batch of seeded runs is evidence, not proof: the space of schedules, fault sequences and workloads is sampled, not enumerated (except where `exhaustive` says so for a named sub-space).",
    "the reference models in /verif/sim/plonksim/src (rm_*.rs) are the trusted base.",
]

PROPS = {
    "C18": {
        "level": "exploration",
        "runs": {"quick": 160, "thorough": 6000},
        "budget_s": {"quick": 400, "thorough": 3000},
        "rule": "one evaluation = one top-level operation (compile by a seeded route / compress / prove with a fixed RNG script) executed under a perturbed environment (pool size T from the menu 1..17,24,31,32,33,64,100; seeded schedule; seeded hash-seed stream; seeded history of unrelated deployments; keys optionally reloaded from bytes) and compared byte-for-byte with the sequential specification (T=1, in-order, hash stream 0, empty history). Non-trivial = the environment is not the canonical one; distinct = distinct hash of (scenario shape, environment, operation).",
        "assumptions": ["std vs alloc-only builds are compared through per-run digests emitted by two separately built binaries (E1/E3)."],
    },
}
